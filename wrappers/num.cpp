// K1 leaf kernels: pure functions of scalars / small buffers.
#include "common.hpp"

// ---- convertNumber / canConvertNumber for every (storage kind, target) pair
#define CVT(in, tin, out, tout) \
  W tout w_cvt_##in##_##out(tin v) { return convertNumber<tout>(v); } \
  W bool w_can_##in##_##out(tin v) { return canConvertNumber<tout>(v); }
#define CVT_ALL_OUT(in, tin) \
  CVT(in, tin, i8, int8_t) CVT(in, tin, u8, uint8_t) CVT(in, tin, i16, int16_t) CVT(in, tin, u16, uint16_t) \
  CVT(in, tin, i32, int32_t) CVT(in, tin, u32, uint32_t) CVT(in, tin, i64, int64_t) CVT(in, tin, u64, uint64_t) \
  CVT(in, tin, f32, float) CVT(in, tin, f64, double)
CVT_ALL_OUT(i32, int32_t) CVT_ALL_OUT(u32, uint32_t) CVT_ALL_OUT(i64, int64_t) CVT_ALL_OUT(u64, uint64_t)
CVT_ALL_OUT(f32, float) CVT_ALL_OUT(f64, double)

// ---- arithmeticCompare for every instantiation reachable from Comparer<T>::visit(U): U in {JsonInteger, JsonUInt, JsonFloat}, T any arithmetic type
#define CMP(a, ta, b, tb) W int w_cmp_##a##_##b(ta x, tb y) { return int(arithmeticCompare(x, y)); }
#define CMP_ALL(a, ta) CMP(a, ta, i8, int8_t) CMP(a, ta, u8, uint8_t) CMP(a, ta, i16, int16_t) CMP(a, ta, u16, uint16_t) CMP(a, ta, i32, int32_t) CMP(a, ta, u32, uint32_t) \
  CMP(a, ta, i64, int64_t) CMP(a, ta, u64, uint64_t) CMP(a, ta, f32, float) CMP(a, ta, f64, double)
CMP_ALL(i64, int64_t) CMP_ALL(u64, uint64_t) CMP_ALL(f64, double)

// ---- parseNumber: kind + payload
W int w_parse_kind(const char* s, uint64_t* u, int64_t* i, double* d) {
  Number n = parseNumber(s);
  switch (n.type()) {
    case NumberType::UnsignedInteger: *u = n.asUnsignedInteger(); return 3;
    case NumberType::SignedInteger: *i = n.asSignedInteger(); return 2;
    case NumberType::Float: *d = n.asFloat(); return 1;
    case NumberType::Double: *d = n.asDouble(); return 4;
    default: return 0;
  }
}
// Number::convertTo<T> on a symbolic (type, value)
#define NCVT(out, tout) \
  W tout w_numcvt_##out(int kind, uint64_t bits) { \
    switch (kind) { case 1: { float f; uint32_t b = uint32_t(bits); memcpy(&f, &b, 4); return Number(f).convertTo<tout>(); } \
      case 2: return Number(JsonInteger(bits)).convertTo<tout>(); case 3: return Number(JsonUInt(bits)).convertTo<tout>(); \
      case 4: { double d; memcpy(&d, &bits, 8); return Number(d).convertTo<tout>(); } default: return Number().convertTo<tout>(); } }
NCVT(i8, int8_t) NCVT(u8, uint8_t) NCVT(i16, int16_t) NCVT(u16, uint16_t) NCVT(i32, int32_t) NCVT(u32, uint32_t) NCVT(i64, int64_t) NCVT(u64, uint64_t) NCVT(f32, float) NCVT(f64, double)

// ---- TextFormatter over the real StaticStringWriter
template <typename F> static size_t fmt(char* buf, size_t cap, F f) {
  StaticStringWriter w(buf, cap); TextFormatter<StaticStringWriter> t(w); f(t); return t.bytesWritten();
}
W size_t w_wi_u64(uint64_t v, char* buf, size_t cap) { return fmt(buf, cap, [&](auto& t) { t.writeInteger(v); }); }
W size_t w_wi_i64(int64_t v, char* buf, size_t cap) { return fmt(buf, cap, [&](auto& t) { t.writeInteger(v); }); }
W size_t w_wi_u32(uint32_t v, char* buf, size_t cap) { return fmt(buf, cap, [&](auto& t) { t.writeInteger(v); }); }
W size_t w_wi_i32(int32_t v, char* buf, size_t cap) { return fmt(buf, cap, [&](auto& t) { t.writeInteger(v); }); }
W size_t w_wi_u16(uint16_t v, char* buf, size_t cap) { return fmt(buf, cap, [&](auto& t) { t.writeInteger(v); }); }
W size_t w_wi_i16(int16_t v, char* buf, size_t cap) { return fmt(buf, cap, [&](auto& t) { t.writeInteger(v); }); }
W size_t w_wi_i8(int8_t v, char* buf, size_t cap) { return fmt(buf, cap, [&](auto& t) { t.writeInteger(v); }); }
W size_t w_wdec(uint32_t v, int8_t width, char* buf, size_t cap) { return fmt(buf, cap, [&](auto& t) { t.writeDecimals(v, width); }); }
W size_t w_wchar(char c, char* buf, size_t cap) { return fmt(buf, cap, [&](auto& t) { t.writeChar(c); }); }
W size_t w_wstr_n(const char* s, size_t n, char* buf, size_t cap) { return fmt(buf, cap, [&](auto& t) { t.writeString(s, n); }); }
W size_t w_wstr_z(const char* s, char* buf, size_t cap) { return fmt(buf, cap, [&](auto& t) { t.writeString(s); }); }
W size_t w_wbool(bool b, char* buf, size_t cap) { return fmt(buf, cap, [&](auto& t) { t.writeBoolean(b); }); }
// StaticStringWriter alone
W size_t w_ssw_write_n(char* buf, size_t cap, const uint8_t* s, size_t n, size_t* second) {
  StaticStringWriter w(buf, cap); size_t a = w.write(s, n); *second = w.write(uint8_t('#')); return a;
}

// ---- UTF-16 -> code point -> UTF-8 with a fixed harness-side builder
struct Buf8 { char b[8]; unsigned n; void append(char c) { if (n < 8) b[n] = c; n++; } };
W unsigned w_utf8(uint32_t cp, char* out) { Buf8 b; b.n = 0; Utf8::encodeCodepoint(cp, b); for (unsigned i = 0; i < 8; i++) out[i] = b.b[i]; return b.n; }
// feeds one or two UTF-16 code units the way parseQuotedString does; returns number of bytes appended
W unsigned w_utf16_units(uint16_t u1, uint16_t u2, unsigned two, char* out, unsigned* completed) {
  Buf8 b; b.n = 0; Utf16::Codepoint cp; unsigned done = 0;
  if (cp.append(u1)) { Utf8::encodeCodepoint(cp.value(), b); done |= 1; }
  if (two) { if (cp.append(u2)) { Utf8::encodeCodepoint(cp.value(), b); done |= 2; } }
  for (unsigned i = 0; i < 8; i++) out[i] = b.b[i];
  *completed = done; return b.n;
}
W char w_escape(char c) { return EscapeSequence::escapeChar(c); }
W char w_unescape(char c) { return EscapeSequence::unescapeChar(c); }

// ---- MessagePack byte order + float narrowing
W void w_fix2(uint8_t* p) { uint16_t v; memcpy(&v, p, 2); fixEndianness(v); memcpy(p, &v, 2); }
W void w_fix4(uint8_t* p) { uint32_t v; memcpy(&v, p, 4); fixEndianness(v); memcpy(p, &v, 4); }
W void w_fix8(uint8_t* p) { uint64_t v; memcpy(&v, p, 8); fixEndianness(v); memcpy(p, &v, 8); }
W void w_fix8d(uint8_t* p) { double v; memcpy(&v, p, 8); fixEndianness(v); memcpy(p, &v, 8); }
W void w_d2f(const uint8_t* d, uint8_t* f) { doubleToFloat(d, f); }

// ---- nesting limit counter
W unsigned w_nl_reached(uint8_t n) { return DeserializationOption::NestingLimit(n).reached(); }
W unsigned w_nl_dec_reached(uint8_t n) { return DeserializationOption::NestingLimit(n).decrement().reached(); }
W unsigned w_nl_dec_dec_reached(uint8_t n) { return DeserializationOption::NestingLimit(n).decrement().decrement().reached(); }

// ---- error strings (C20: no mutable statics)
W const char* w_err_cstr(int code) { return DeserializationError(DeserializationError::Code(code)).c_str(); }

// ---- string / raw comparison kernels (C14, C18)
W int w_rawcmp(const char* a, size_t na, const char* b, size_t nb) { RawComparer c(RawString(b, nb)); return int(c.visit(RawString(a, na))); }
W int w_strcmp_sized(const char* a, size_t na, const char* b, size_t nb) { return stringCompare(adaptString(a, na), adaptString(b, nb)); }
W int w_strcmp_js(const char* a, size_t na, const char* b, size_t nb) { return stringCompare(adaptString(JsonString(a, na)), adaptString(JsonString(b, nb))); }
W int w_strcmp_zt_sized(const char* a, const char* b, size_t nb) { return stringCompare(adaptString(a), adaptString(b, nb)); }
W int w_strcmp_sized_zt(const char* a, size_t na, const char* b) { return stringCompare(adaptString(a, na), adaptString(b)); }
W bool w_streq_sized(const char* a, size_t na, const char* b, size_t nb) { return stringEquals(adaptString(a, na), adaptString(b, nb)); }
W bool w_streq_zt_sized(const char* a, const char* b, size_t nb) { return stringEquals(adaptString(a), adaptString(b, nb)); }
W bool w_streq_sized_zt(const char* a, size_t na, const char* b) { return stringEquals(adaptString(a, na), adaptString(b)); }
W bool w_streq_zt_zt(const char* a, const char* b) { return stringEquals(adaptString(a), adaptString(b)); }
W int w_jscmp(const char* a, size_t na, const char* b, size_t nb) {  // Comparer<JsonString>::visit(JsonString)
  Comparer<JsonString> c{JsonString(b, nb)}; return int(c.visit(JsonString(a, na)));
}
