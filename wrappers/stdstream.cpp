// std::istream reader and std::ostream writer adapters; the stream member functions they call are the ENVIRONMENT and are
// defined by the harness (a stream that delivers / accepts what its contract allows)
#undef ARDUINOJSON_ENABLE_STD_STREAM
#define ARDUINOJSON_ENABLE_STD_STREAM 1
#include "common.hpp"
W size_t w_isr_readbytes(std::istream* s, char* buf, size_t n) { Reader<std::istream> r(*s); return r.readBytes(buf, n); }
W int w_isr_read(std::istream* s) { Reader<std::istream> r(*s); return r.read(); }
W size_t w_osw_put(std::ostream* os, uint8_t c) { Writer<std::ostream> w(*os); return w.write(c); }
W size_t w_osw_write(std::ostream* os, const uint8_t* s, size_t n) { Writer<std::ostream> w(*os); return w.write(s, n); }
