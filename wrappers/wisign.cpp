// signed writeInteger with the unsigned digit loop cut (the loop itself is verified in unit `num`)
#include "common.hpp"
template <typename F> static size_t fmt(char* buf, size_t cap, F f) {
  StaticStringWriter w(buf, cap); TextFormatter<StaticStringWriter> t(w); f(t); return t.bytesWritten();
}
W size_t w_wis_i64(int64_t v, char* buf, size_t cap) { return fmt(buf, cap, [&](auto& t) { t.writeInteger(v); }); }
W size_t w_wis_i32(int32_t v, char* buf, size_t cap) { return fmt(buf, cap, [&](auto& t) { t.writeInteger(v); }); }
W size_t w_wis_i16(int16_t v, char* buf, size_t cap) { return fmt(buf, cap, [&](auto& t) { t.writeInteger(v); }); }
W size_t w_wis_i8(int8_t v, char* buf, size_t cap) { return fmt(buf, cap, [&](auto& t) { t.writeInteger(v); }); }
