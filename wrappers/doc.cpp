// K3: fixed-shape scenarios through the PUBLIC API on an arena allocator; payloads are symbolic in the harness.
#include "common.hpp"
static Arena arena;
struct Obs { unsigned ok, overflowed, is_i8, is_u8, is_i16, is_u16, is_i32, is_u32, is_i64, is_u64, is_f32, is_f64, is_bool, is_str, is_null, n_free, calls;
  int8_t i8; uint8_t u8; int16_t i16; uint16_t u16; int32_t i32; uint32_t u32; int64_t i64; uint64_t u64; float f32; double f64; };
static void observe(JsonVariantConst v, Obs* o) {
  o->is_i8 = v.is<int8_t>(); o->is_u8 = v.is<uint8_t>(); o->is_i16 = v.is<int16_t>(); o->is_u16 = v.is<uint16_t>();
  o->is_i32 = v.is<int32_t>(); o->is_u32 = v.is<uint32_t>(); o->is_i64 = v.is<int64_t>(); o->is_u64 = v.is<uint64_t>();
  o->is_f32 = v.is<float>(); o->is_f64 = v.is<double>(); o->is_bool = v.is<bool>(); o->is_str = v.is<const char*>(); o->is_null = v.isNull();
  o->i8 = v.as<int8_t>(); o->u8 = v.as<uint8_t>(); o->i16 = v.as<int16_t>(); o->u16 = v.as<uint16_t>();
  o->i32 = v.as<int32_t>(); o->u32 = v.as<uint32_t>(); o->i64 = v.as<int64_t>(); o->u64 = v.as<uint64_t>();
  o->f32 = v.as<float>(); o->f64 = v.as<double>();
}
#define ONE(name, T) W void w_one_##name(T v, Obs* o) { arena.reset(); { JsonDocument doc(&arena); o->ok = doc.set(v); o->overflowed = doc.overflowed(); observe(doc.as<JsonVariantConst>(), o); } o->n_free = arena.n_free; o->calls = arena.calls; }
ONE(i32, int32_t) ONE(u32, uint32_t) ONE(i64, int64_t) ONE(u64, uint64_t) ONE(f32, float) ONE(f64, double) ONE(bool, bool)
// string holding a number: linked (const char*) vs copied (char*) twins
W void w_str_linked(const char* s, Obs* o) { arena.reset(); { JsonDocument doc(&arena); o->ok = doc.set(s); observe(doc.as<JsonVariantConst>(), o); } }
W void w_str_copied(char* s, Obs* o) { arena.reset(); { JsonDocument doc(&arena); o->ok = doc.set(s); observe(doc.as<JsonVariantConst>(), o); } }
W void w_str_sized(const char* s, size_t n, unsigned linked, Obs* o) { arena.reset(); { JsonDocument doc(&arena); o->ok = doc.set(JsonString(s, n, linked ? JsonString::Linked : JsonString::Copied)); observe(doc.as<JsonVariantConst>(), o); } }

struct SObs { unsigned ok, is_str, is_i32, is_f64; int32_t i32; uint64_t u64; float f32; double f64; };
static void observe_s(JsonVariantConst v, SObs* o) { o->is_str = v.is<const char*>(); o->is_i32 = v.is<int32_t>(); o->is_f64 = v.is<double>(); o->i32 = v.as<int32_t>(); o->u64 = v.as<uint64_t>(); o->f32 = v.as<float>(); o->f64 = v.as<double>(); }
W void w_strs_linked(const char* s, SObs* o) { arena.reset(); JsonDocument doc(&arena); o->ok = doc.set(s); observe_s(doc.as<JsonVariantConst>(), o); }
W void w_strs_copied(char* s, SObs* o) { arena.reset(); JsonDocument doc(&arena); o->ok = doc.set(s); observe_s(doc.as<JsonVariantConst>(), o); }
W void w_strs_sized(const char* s, size_t n, unsigned linked, SObs* o) { arena.reset(); JsonDocument doc(&arena); o->ok = doc.set(JsonString(s, n, linked ? JsonString::Linked : JsonString::Copied)); observe_s(doc.as<JsonVariantConst>(), o); }
// serializeJson / measureJson / pretty on fixed shapes; cap symbolic
struct Ser { size_t n, measure, npretty, mpretty; };
template <typename F> static void ser(F build, char* out, size_t cap, char* outp, size_t capp, Ser* s) {
  arena.reset(); JsonDocument doc(&arena); build(doc);
  s->n = serializeJson(doc, out, cap); s->measure = measureJson(doc);
  if (capp) { s->npretty = serializeJsonPretty(doc, outp, capp); s->mpretty = measureJsonPretty(doc); }
}
W void w_ser_arr_i_s_u(int32_t i, const char* p, size_t n, uint32_t u, char* out, size_t cap, char* outp, size_t capp, Ser* s) {
  ser([&](JsonDocument& d) { d.add(i); d.add(JsonString(p, n, JsonString::Copied)); d.add(u); }, out, cap, outp, capp, s);
}
W void w_ser_obj_k_b(const char* k, size_t kn, bool b, char* out, size_t cap, char* outp, size_t capp, Ser* s) {
  ser([&](JsonDocument& d) { d[JsonString(k, kn, JsonString::Copied)] = b; d["n"] = nullptr; }, out, cap, outp, capp, s);
}
W void w_ser_nested(int32_t i, char* out, size_t cap, char* outp, size_t capp, Ser* s) {
  ser([&](JsonDocument& d) { JsonArray a = d["a"].to<JsonArray>(); a.add(i); a.add<JsonObject>(); d["e"].to<JsonArray>(); }, out, cap, outp, capp, s);
}
W void w_ser_scalar_i64(int32_t v, char* out, size_t cap, Ser* s) { arena.reset(); JsonDocument doc(&arena); doc.set(v); s->n = serializeJson(doc, out, cap); s->measure = measureJson(doc); }
W void w_ser_raw(const char* p, size_t n, char* out, size_t cap, Ser* s) { arena.reset(); JsonDocument doc(&arena); doc.add(serialized(p, n)); s->n = serializeJson(doc, out, cap); s->measure = measureJson(doc); }
W void w_ser_nonfinite(unsigned which, char* out, size_t cap, Ser* s) {
  arena.reset(); JsonDocument doc(&arena); double v = which == 0 ? FloatTraits<double>::nan() : which == 1 ? FloatTraits<double>::inf() : which == 2 ? -FloatTraits<double>::inf() : 0.0;
  doc.add(v); s->n = serializeJson(doc, out, cap); s->measure = measureJson(doc);
}

// ---- comparison operators (C18): variant vs C string / scalar in both operand orders, and container equality
struct Ops { unsigned eq, ne, lt, le, gt, ge, req, rne, rlt, rle, rgt, rge; };
template <typename A, typename B> static void ops(const A& a, const B& b, Ops* o) {
  o->eq = a == b; o->ne = a != b; o->lt = a < b; o->le = a <= b; o->gt = a > b; o->ge = a >= b;
  o->req = b == a; o->rne = b != a; o->rlt = b < a; o->rle = b <= a; o->rgt = b > a; o->rge = b >= a;
}
W void w_ops_str_ptr(const char* s, size_t n, const char* lit, Ops* o) { arena.reset(); JsonDocument doc(&arena); doc.set(JsonString(s, n, JsonString::Copied)); ops(doc.as<JsonVariantConst>(), lit, o); }
W void w_ops_str_var(const char* s, size_t n, const char* t, size_t m, Ops* o) {
  arena.reset(); JsonDocument d1(&arena), d2(&arena); d1.set(JsonString(s, n, JsonString::Copied)); d2.set(JsonString(t, m, JsonString::Copied));
  ops(d1.as<JsonVariantConst>(), d2.as<JsonVariantConst>(), o);
}
W void w_ops_int_scalar(int64_t v, int32_t k, Ops* o) { arena.reset(); JsonDocument doc(&arena); doc.set(v); ops(doc.as<JsonVariantConst>(), k, o); }
W void w_ops_uint_var(uint64_t v, int64_t w, Ops* o) { arena.reset(); JsonDocument d1(&arena), d2(&arena); d1.set(v); d2.set(w); ops(d1.as<JsonVariantConst>(), d2.as<JsonVariantConst>(), o); }
// objects {"a":x,"b":y} vs {"a":z, K:w}: K is "b" or "c"; y / w may be null
W unsigned w_obj_eq(int32_t x, int32_t y, unsigned ynull, int32_t z, int32_t w, unsigned wnull, unsigned second_key_c, unsigned swap_order) {
  arena.reset(); JsonDocument d1(&arena), d2(&arena);
  d1["a"] = x; if (ynull) d1["b"] = nullptr; else d1["b"] = y;
  const char* k = second_key_c ? "c" : "b";
  if (swap_order) { if (wnull) d2[k] = nullptr; else d2[k] = w; d2["a"] = z; } else { d2["a"] = z; if (wnull) d2[k] = nullptr; else d2[k] = w; }
  unsigned r = (d1.as<JsonVariantConst>() == d2.as<JsonVariantConst>()) ? 1u : 0u;
  r |= (d2.as<JsonVariantConst>() == d1.as<JsonVariantConst>()) ? 2u : 0u;
  r |= (d1.as<JsonVariantConst>() != d2.as<JsonVariantConst>()) ? 4u : 0u;
  return r;
}
W unsigned w_arr_eq(int32_t x, int32_t y, int32_t z, int32_t w, unsigned n2) {   // [x,y] vs [z,w] or [z]
  arena.reset(); JsonDocument d1(&arena), d2(&arena);
  d1.add(x); d1.add(y); d2.add(z); if (n2 == 2) d2.add(w);
  unsigned r = (d1.as<JsonVariantConst>() == d2.as<JsonVariantConst>()) ? 1u : 0u;
  r |= (d2.as<JsonVariantConst>() == d1.as<JsonVariantConst>()) ? 2u : 0u;
  return r;
}
// ---- serializeMsgPack into a bounded buffer (C08)
W void w_mser_arr(int32_t i, const char* p, size_t n, bool b, char* out, size_t cap, Ser* s) {
  arena.reset(); JsonDocument doc(&arena); doc.add(i); doc.add(JsonString(p, n, JsonString::Copied)); doc.add(b); doc.add(nullptr);
  s->n = serializeMsgPack(doc, out, cap); s->measure = measureMsgPack(doc);
}

// ---- array histories (C04/C05/C06): concrete shapes, symbolic values
struct Hist { unsigned size, n, overflowed, calls_before, calls_after, ok_mask, nesting, frees; int32_t e[8]; };
static void observe_arr(JsonDocument& doc, Hist* h) {
  h->size = unsigned(doc.size()); h->overflowed = doc.overflowed(); h->nesting = unsigned(doc.nesting()); h->n = 0;
  for (JsonVariantConst v : doc.as<JsonArrayConst>()) { if (h->n < 8) h->e[h->n] = v.is<int32_t>() ? v.as<int32_t>() : (v.isNull() ? -1000 : -2000); h->n++; }
}
// add a,b,c ; remove index r ; add d          (slot of the removed element must be reused: no allocator call)
W void w_hist_add_remove_add(int32_t a, int32_t b, int32_t c, int32_t d, unsigned r, Hist* h) {
  arena.reset(); { JsonDocument doc(&arena); unsigned m = 0;
  m |= doc.add(a) ? 1 : 0; m |= doc.add(b) ? 2 : 0; m |= doc.add(c) ? 4 : 0;
  doc.remove(r); h->calls_before = arena.calls; m |= doc.add(d) ? 8 : 0; h->calls_after = arena.calls; h->ok_mask = m;
  observe_arr(doc, h); } h->frees = arena.n_free;
}
// five adds with the allocator failing at call number `failAt` (0 = never): pools hold 4 slots, the 5th add needs a 2nd pool
W void w_hist_five_adds(int32_t a, int32_t b, int32_t c, int32_t d, int32_t e, unsigned failAt, Hist* h) {
  arena.reset(failAt ? (1u << (failAt - 1)) : 0); { JsonDocument doc(&arena); unsigned m = 0;
  m |= doc.add(a) ? 1 : 0; m |= doc.add(b) ? 2 : 0; m |= doc.add(c) ? 4 : 0; m |= doc.add(d) ? 8 : 0; m |= doc.add(e) ? 16 : 0; h->ok_mask = m; h->calls_after = arena.calls;
  observe_arr(doc, h); } h->frees = arena.n_free;
}
// element beyond the end: doc[idx] = x on [a]  (idx concrete per obligation)
W void w_hist_set_beyond(int32_t a, int32_t x, unsigned idx, Hist* h) {
  arena.reset(); { JsonDocument doc(&arena); doc.add(a); doc[idx] = x; h->calls_after = arena.calls; observe_arr(doc, h); }
}
// deep copy: d2 = copy of [a,b]; then d1[0] = x and d1.add(y); d2 must still be [a,b]
W void w_hist_copy(int32_t a, int32_t b, int32_t x, int32_t y, Hist* h1, Hist* h2) {
  arena.reset(); { JsonDocument d1(&arena); d1.add(a); d1.add(b); JsonDocument d2(d1); d1[0] = x; d1.add(y); observe_arr(d1, h1); observe_arr(d2, h2); }
  h1->frees = arena.n_free; h1->calls_after = arena.calls;
}
// clear then reuse
W void w_hist_clear_reuse(int32_t a, int32_t b, Hist* h) {
  arena.reset(); { JsonDocument doc(&arena); doc.add(a); doc.add(a); doc.clear(); h->calls_before = arena.calls; h->frees = arena.n_free; doc.add(b); observe_arr(doc, h); h->calls_after = arena.calls; }
}
// ---- 64-bit value whose extension slot cannot be allocated (C05/C19): the failure must be reported and flagged
W void w_ext_fail(int64_t v, unsigned failAt, Hist* h) {
  arena.reset(failAt ? (1u << (failAt - 1)) : 0); JsonDocument doc(&arena);
  h->ok_mask = doc.set(v) ? 1 : 0; h->overflowed = doc.overflowed(); h->calls_after = arena.calls;
  h->size = doc.is<int64_t>() ? 1 : 0; h->e[0] = doc.isNull() ? 1 : 0; h->n = unsigned(doc.as<int64_t>() == v);
}
// ---- read-only operations on a proxy of a missing element must not create it (C04/C06)
W void w_readonly_proxy(int32_t a, unsigned idx, Hist* h) {
  arena.reset(); JsonDocument doc(&arena); doc.add(a); unsigned c0 = arena.calls;
  unsigned n = unsigned(doc[idx].nesting()); unsigned s = unsigned(doc[idx].size()); bool isn = doc[idx].isNull(); int v = doc[idx] | -7;
  h->calls_before = c0; h->calls_after = arena.calls; h->ok_mask = isn ? 1 : 0; h->frees = unsigned(v);
  observe_arr(doc, h); h->e[7] = int32_t(n + s);
}
// ---- copyArray (C13): document [a,b,c] into a C array of capacity `cap` (symbolic, <= 4) inside guard elements;
// a string element into char[4]; a C array into a document
W size_t w_copyarray_out(int32_t a, int32_t b, int32_t c, size_t cap, int32_t* dst /* 6 ints, dst[1..4] is the destination */) {
  arena.reset(); JsonDocument doc(&arena); doc.add(a); doc.add(b); doc.add(c);
  return copyArray(doc.as<JsonArrayConst>(), dst + 1, cap);
}
W size_t w_copyarray_str(const char* s, size_t n, char* guarded /* 6 chars, [1..4] is char dst[4] */) {
  arena.reset(); JsonDocument doc(&arena); doc.set(JsonString(s, n, JsonString::Copied));
  char tmp[4]; size_t r = copyArray(doc.as<JsonVariantConst>(), tmp); for (int i = 0; i < 4; i++) guarded[1 + i] = tmp[i]; return r;
}
W unsigned w_copyarray_in(int32_t a, int32_t b, Hist* h) { arena.reset(); JsonDocument doc(&arena); int32_t src[2] = {a, b}; bool ok = copyArray(src, doc); observe_arr(doc, h); return ok; }
// ---- bin / ext set through the API (C08): header construction, verbatim payload, read back
W void w_bin(const unsigned char* p, size_t n, unsigned char* out, size_t cap, Ser* s, size_t* backn, unsigned char* back) {
  arena.reset(); JsonDocument doc(&arena); doc.set(MsgPackBinary(p, n));
  s->n = serializeMsgPack(doc, out, cap); s->measure = measureMsgPack(doc);
  MsgPackBinary b = doc.as<MsgPackBinary>(); *backn = b.data() ? b.size() : size_t(-1);
  if (b.data()) for (size_t i = 0; i < b.size() && i < 4; i++) back[i] = static_cast<const unsigned char*>(b.data())[i];
}
W void w_ext(int8_t type, const unsigned char* p, size_t n, unsigned char* out, size_t cap, Ser* s) {
  arena.reset(); JsonDocument doc(&arena); doc.set(MsgPackExtension(type, p, n));
  s->n = serializeMsgPack(doc, out, cap); s->measure = measureMsgPack(doc);
}
W void w_pretty_nested(int32_t i, const char* p, size_t n, char* outp, size_t capp, Ser* s) {   // [i,[ "s" ],[]]
  arena.reset(); JsonDocument doc(&arena); doc.add(i); JsonArray a = doc.add<JsonArray>(); a.add(JsonString(p, n, JsonString::Copied)); doc.add<JsonArray>();
  s->npretty = serializeJsonPretty(doc, outp, capp); s->mpretty = measureJsonPretty(doc); s->n = 0; s->measure = measureJson(doc);
}
// ---- sharing of equal copied strings is invisible (C14/C06): add s, add t; remove(0); the survivor keeps its bytes;
// blocks are released exactly when the last user disappears
struct Shr { unsigned ok, size_after, len, calls_mid, calls_end, frees_mid, frees_after_clear; unsigned char bytes[4]; };
W void w_shared_strings(const char* s, const char* t, size_t n, Shr* o) {
  arena.reset(); { JsonDocument doc(&arena);
  o->ok = (doc.add(JsonString(s, n, JsonString::Copied)) ? 1 : 0) | (doc.add(JsonString(t, n, JsonString::Copied)) ? 2 : 0);
  o->calls_mid = arena.calls;
  doc.remove(0); o->frees_mid = arena.n_free;
  JsonString r = doc[0].as<JsonString>(); o->len = unsigned(r.size()); for (unsigned i = 0; i < 4 && i < r.size(); i++) o->bytes[i] = (unsigned char)r.c_str()[i];
  o->size_after = unsigned(doc.size()); o->calls_end = arena.calls; }
  o->frees_after_clear = arena.n_free;
}
// ---- arrays with trailing nulls (C18) and unbound sources (C04)
W unsigned w_arr_eq_null(int32_t x, int32_t z, unsigned n1extra_null, unsigned n2extra_null) {   // [x, null?] vs [z, null?]
  arena.reset(); JsonDocument d1(&arena), d2(&arena);
  d1.add(x); if (n1extra_null) d1.add(nullptr); d2.add(z); if (n2extra_null) d2.add(nullptr);
  unsigned r = (d1.as<JsonVariantConst>() == d2.as<JsonVariantConst>()) ? 1u : 0u;
  r |= (d2.as<JsonVariantConst>() == d1.as<JsonVariantConst>()) ? 2u : 0u;
  return r;
}
W void w_set_unbound(int32_t a, unsigned which, Hist* h) {   // [a]; then add an UNBOUND array / object / variant reference: it must add null
  arena.reset(); JsonDocument doc(&arena), other(&arena); doc.add(a);
  bool ok;
  if (which == 0) ok = doc.add(other["missing"].as<JsonArrayConst>());
  else if (which == 1) ok = doc.add(other["missing"].as<JsonObjectConst>());
  else ok = doc.add(other["missing"].as<JsonVariantConst>());
  h->ok_mask = ok; observe_arr(doc, h);
  h->frees = doc[1].isNull() ? 1 : 0; h->calls_before = doc[1].is<JsonArrayConst>() ? 1 : 0; h->calls_after = doc[1].is<JsonObjectConst>() ? 1 : 0;
}
// ---- custom writer that accepts only `room` bytes (C02): the returned count is the number of bytes the sink took
struct BoundedSink { char* p; size_t room; size_t taken; size_t calls;
  size_t write(uint8_t c) { calls++; if (!room) return 0; *p++ = char(c); room--; taken++; return 1; }
  size_t write(const uint8_t* s, size_t n) { calls++; size_t k = n < room ? n : room; for (size_t i = 0; i < k; i++) *p++ = char(s[i]); room -= k; taken += k; return k; } };
W void w_ser_custom(int32_t i, const char* p, size_t n, char* out, size_t room, Ser* s) {   // [i,"p"]
  arena.reset(); JsonDocument doc(&arena); doc.add(i); doc.add(JsonString(p, n, JsonString::Copied));
  BoundedSink k{out, room, 0, 0}; s->n = serializeJson(doc, k); s->measure = measureJson(doc); s->npretty = k.taken; s->mpretty = k.calls;
}
W void w_ser_raw_only(const char* p, size_t n, char* out, size_t cap, Ser* s) { arena.reset(); JsonDocument doc(&arena); doc.set(serialized(p, n)); s->n = serializeJson(doc, out, cap); s->measure = measureJson(doc); }
// ---- swap / move of documents carries the overflowed() flag with the content (C05)
W void w_swap_overflow(int64_t v, int32_t a, unsigned how, Hist* h1, Hist* h2) {
  arena.reset(1u);   // the very first allocator call fails: d1.set(v) cannot get its extension slot
  JsonDocument d1(&arena), d2(&arena); bool ok1 = d1.set(v); bool ok2 = d2.set(a);
  h1->ok_mask = ok1; h2->ok_mask = ok2; h1->calls_before = d1.overflowed(); h2->calls_before = d2.overflowed();
  if (how == 0) swap(d1, d2); else { JsonDocument t(detail::move(d1)); d1 = detail::move(d2); d2 = detail::move(t); }
  h1->overflowed = d1.overflowed(); h2->overflowed = d2.overflowed(); h1->size = d1.is<int32_t>(); h1->e[0] = d1.as<int32_t>(); h2->size = d2.isNull();
}
// doc[p+1] = x on an array of p elements (p = 0 or 4 = one full pool) with ONE transient allocator failure, at the pool
// allocation of the first padding element: the assignment must be reported as failed and nothing half-done may be visible
W void w_hist_pad_fail(int32_t a, int32_t x, unsigned p, unsigned failAt, Hist* h) {
  arena.reset(); { JsonDocument doc(&arena); for (unsigned i = 0; i < p; i++) doc.add(a);
  arena.failmask = failAt ? (1u << (arena.calls + failAt - 1)) : 0;
  bool ok = doc[p + 1].set(x); h->ok_mask = ok; h->calls_after = arena.calls; observe_arr(doc, h); }
}
// ---- replacing a raw (serialized) value or a copied string releases its string node at once (C06/C14/C19)
W void w_raw_release(const char* p, int32_t x, unsigned kind, Hist* h) {
  // (an ELEMENT is replaced: replacing the root clears the whole document, which releases strings wholesale)
  arena.reset(); { JsonDocument doc(&arena); JsonVariant v = doc.add<JsonVariant>(); h->calls_before = arena.calls;   // calls so far: the slot pool
  bool ok = kind == 0 ? v.set(serialized(p, 2)) : v.set(JsonString(p, 2, JsonString::Copied)); h->ok_mask = ok;
  unsigned f0 = arena.n_free; v.set(x); h->frees = arena.n_free - f0; h->calls_after = arena.calls - h->calls_before; h->size = v.is<int32_t>(); h->e[0] = v.as<int32_t>(); h->calls_before = f0; }
  h->n = arena.n_free;
}
// ---- an add() refused AFTER its slot was allocated (the copied string cannot be allocated) gives the slot back (C05/C19/C06)
W void w_hist_add_str_fail(int32_t a, int32_t b, const char* p, Hist* h) {
  arena.reset(); { JsonDocument doc(&arena); doc.add(a); doc.add(a); doc.add(a);       // 3 of the pool's 4 slots
  arena.failmask = 1u << arena.calls;                                                   // the next allocator call (the string node) fails
  bool ok1 = doc.add(JsonString(p, 2, JsonString::Copied)); h->calls_before = arena.calls;
  bool ok2 = doc.add(b); h->calls_after = arena.calls; h->ok_mask = (ok1 ? 1 : 0) | (ok2 ? 2 : 0); observe_arr(doc, h); }
  h->frees = arena.n_free;
}
// ---- 2-D copyArray (C13): [[a,b,x],[c]] into int dst[2][2] placed inside guard cells; and int src[2][2] into a document
W size_t w_copyarray_2d_out(int32_t a, int32_t b, int32_t x, int32_t c, int32_t* guarded /* 6 ints, [1..4] is int dst[2][2] */) {
  arena.reset(); JsonDocument doc(&arena); JsonArray r0 = doc.add<JsonArray>(); r0.add(a); r0.add(b); r0.add(x); JsonArray r1 = doc.add<JsonArray>(); r1.add(c);
  int32_t dst[2][2] = {{guarded[1], guarded[2]}, {guarded[3], guarded[4]}};
  copyArray(doc.as<JsonArrayConst>(), dst);
  guarded[1] = dst[0][0]; guarded[2] = dst[0][1]; guarded[3] = dst[1][0]; guarded[4] = dst[1][1]; return doc.size();
}
W unsigned w_copyarray_2d_in(int32_t a, int32_t b, int32_t c, int32_t d, int32_t* out /* 4 */, unsigned* sizes /* 3: outer, row0, row1 */) {
  arena.reset(); JsonDocument doc(&arena); int32_t src[2][2] = {{a, b}, {c, d}}; bool ok = copyArray(src, doc);
  JsonArrayConst o = doc.as<JsonArrayConst>(); sizes[0] = unsigned(o.size()); sizes[1] = unsigned(o[0].size()); sizes[2] = unsigned(o[1].size());
  out[0] = o[0][0].as<int32_t>(); out[1] = o[0][1].as<int32_t>(); out[2] = o[1][0].as<int32_t>(); out[3] = o[1][1].as<int32_t>(); return ok;
}
// ---- nested value removed: [[a,b],c]; remove(0) releases the inner array's slots too; three adds then need no allocator call
W void w_hist_nested_remove(int32_t a, int32_t b, int32_t c, int32_t d, Hist* h) {
  arena.reset(); { JsonDocument doc(&arena); JsonArray r0 = doc.add<JsonArray>(); r0.add(a); r0.add(b); doc.add(c);     // 4 slots = one pool
  doc.remove(0); h->calls_before = arena.calls; unsigned m = 0;
  m |= doc.add(d) ? 1 : 0; m |= doc.add(d) ? 2 : 0; m |= doc.add(d) ? 4 : 0; h->calls_after = arena.calls; h->ok_mask = m; observe_arr(doc, h); }
  h->frees = arena.n_free;
}
