// JsonDeserializer private routines, one activation at a time ("steps").
// READER selects the input kind: 0 = VReader (bounded, position observable), 1 = the library's zero-terminated
// Reader<const char*>, 2 = the library's BoundedReader<const char*>.
#include "common.hpp"
#ifndef READER
#define READER 0
#endif
#if READER == 0
using RD = VReader;
static RD mkReader(const unsigned char* in, unsigned n) { return VReader{in, in + n}; }
#elif READER == 1
using RD = Reader<const char*>;
static RD mkReader(const unsigned char* in, unsigned) { return RD(reinterpret_cast<const char*>(in)); }
#else
using RD = BoundedReader<const char*>;
static RD mkReader(const unsigned char* in, unsigned n) { return RD(reinterpret_cast<const char*>(in), n); }
#endif
using JD = JsonDeserializer<RD>;
using Code = DeserializationError::Code;
using NL = DeserializationOption::NestingLimit;
using DeserializationOption::Filter;

ROB(T_sb, JD, StringBuilder JD::*, stringBuilder_)
ROB(T_latch, JD, Latch<RD> JD::*, latch_)
ROB(T_found, JD, bool JD::*, foundSomething_)
ROB(T_buf, JD, char (JD::*)[64], buffer_)
ROB(T_lreader, Latch<RD>, RD Latch<RD>::*, reader_)
ROB(T_lloaded, Latch<RD>, bool Latch<RD>::*, loaded_)
ROB(T_lcur, Latch<RD>, char Latch<RD>::*, current_)
ROB(T_lended, Latch<RD>, bool Latch<RD>::*, ended_)
ROB(T_pqs, JD, Code (JD::*)(), parseQuotedString)
ROB(T_pnqs, JD, Code (JD::*)(), parseNonQuotedString)
ROB(T_pkey, JD, Code (JD::*)(), parseKey)
ROB(T_sqs, JD, Code (JD::*)(), skipQuotedString)
ROB(T_snqs, JD, Code (JD::*)(), skipNonQuotedString)
ROB(T_skey, JD, Code (JD::*)(), skipKey)
ROB(T_snum, JD, Code (JD::*)(), skipNumericValue)
ROB(T_pnum, JD, Code (JD::*)(VariantData&), parseNumericValue)
ROB(T_psv, JD, Code (JD::*)(VariantData&), parseStringValue)
ROB(T_ssc, JD, Code (JD::*)(), skipSpacesAndComments)
ROB(T_skw, JD, Code (JD::*)(const char*), skipKeyword)
ROB(T_hex4, JD, Code (JD::*)(uint16_t&), parseHex4)
ROB(T_pa, JD, Code (JD::*)(ArrayData&, AllowAllFilter, NL), template parseArray<AllowAllFilter>)
ROB(T_po, JD, Code (JD::*)(ObjectData&, AllowAllFilter, NL), template parseObject<AllowAllFilter>)
ROB(T_pv, JD, Code (JD::*)(VariantData&, AllowAllFilter, NL), template parseVariant<AllowAllFilter>)
ROB(T_paf, JD, Code (JD::*)(ArrayData&, Filter, NL), template parseArray<Filter>)
ROB(T_pof, JD, Code (JD::*)(ObjectData&, Filter, NL), template parseObject<Filter>)
ROB(T_pvf, JD, Code (JD::*)(VariantData&, Filter, NL), template parseVariant<Filter>)
ROB(T_sa, JD, Code (JD::*)(NL), skipArray)
ROB(T_so, JD, Code (JD::*)(NL), skipObject)
ROB(T_sv, JD, Code (JD::*)(NL), skipVariant)
ROB(T_cbn, JD, bool (*)(char), canBeInNumber)
ROB(T_cbnqs, JD, bool (*)(char), canBeInNonQuotedString)
ROB(T_isq, JD, bool (*)(char), isQuote)
ROB(T_dhex, JD, uint8_t (*)(char), decodeHex)

static Arena arena;

// --- state observers / manipulators used by harness stubs (compiled from the real class layout)
#if READER == 0
W unsigned w_jd_pos(JD* d, const unsigned char* base) { return unsigned((d->*get(T_latch()).*get(T_lreader())).p - base); }
W unsigned w_jd_remaining(JD* d) { RD& r = d->*get(T_latch()).*get(T_lreader()); return unsigned(r.end - r.p); }
// Effect of a cut child (parseVariant/skipVariant/parseKey...) on the input state, as a real child can leave it:
// mode 0: k more bytes consumed, no look-ahead pending; mode 1: k>=1 more bytes consumed, the last one is the pending
// look-ahead (a number was scanned); mode 2: the input was exhausted (latch holds the end marker).
W void w_jd_child_effect(JD* d, unsigned k, unsigned mode) {
  Latch<RD>& l = d->*get(T_latch()); RD& r = l.*get(T_lreader());
  r.p += k;
  if (mode == 2) { r.p = r.end; l.*get(T_lloaded()) = true; l.*get(T_lcur()) = 0; l.*get(T_lended()) = true; }
  else if (mode == 1) { char c = char(r.p[-1]); l.*get(T_lloaded()) = true; l.*get(T_lcur()) = c; if (c == 0) l.*get(T_lended()) = true; }
  else l.*get(T_lloaded()) = false;
}
W void w_var_mark(VariantData* v, int tag) { v->setInteger(int32_t(tag), nullptr); }
static int tagOf(const VariantData* v, ResourceManager* rm) { return v->isInteger<int32_t>(rm) ? v->asIntegral<int32_t>(rm) : -1; }
W void w_jd_set_key(JD* d, const unsigned char* k, unsigned n) { StringBuilder& sb = d->*get(T_sb()); sb.startString(); for (unsigned i = 0; i < n; i++) sb.append(char(k[i])); }
#endif
W unsigned w_jd_latched(JD* d) { return (d->*get(T_latch()).*get(T_lloaded())) ? 1u : 0u; }
W int w_jd_latch_char(JD* d) { return (unsigned char)(d->*get(T_latch()).*get(T_lcur())); }
W unsigned w_jd_found(JD* d) { return d->*get(T_found()); }

struct Out { unsigned code, consumed, latched, latch_char, found, aux, aux2; };
static void fill(Out* o, JD& d, const unsigned char* in, Code c) {
  o->code = unsigned(c);
#if READER == 0
  o->consumed = w_jd_pos(&d, in);
#else
  o->consumed = 0;
#endif
  o->latched = w_jd_latched(&d); o->latch_char = unsigned(w_jd_latch_char(&d)); o->found = w_jd_found(&d);
}
#define SETUP(fm) arena.reset(fm); ResourceManager rm(&arena); JD d(&rm, mkReader(in, n));

// ---- leaf scanners
W void w_pqs(const unsigned char* in, unsigned n, unsigned fm, unsigned char* out, unsigned outcap, unsigned* outlen, Out* o) {
  SETUP(fm)
  (d.*get(T_sb())).startString();
  Code c = (d.*get(T_pqs()))();
  *outlen = 0;
  if (c == DeserializationError::Ok) {
    JsonString s = (d.*get(T_sb())).str();
    *outlen = unsigned(s.size());
    for (unsigned i = 0; i < s.size() + 1 && i < outcap; i++) out[i] = (unsigned char)s.c_str()[i];
  }
  o->aux = unsigned(rm.overflowed()); fill(o, d, in, c);
}
W void w_pkey(const unsigned char* in, unsigned n, unsigned fm, unsigned char* out, unsigned outcap, unsigned* outlen, Out* o) {
  SETUP(fm)
  Code c = (d.*get(T_pkey()))();
  *outlen = 0;
  if (c == DeserializationError::Ok) {
    JsonString s = (d.*get(T_sb())).str();
    *outlen = unsigned(s.size());
    for (unsigned i = 0; i < s.size() + 1 && i < outcap; i++) out[i] = (unsigned char)s.c_str()[i];
  }
  fill(o, d, in, c);
}
W void w_sqs(const unsigned char* in, unsigned n, Out* o) { SETUP(0) fill(o, d, in, (d.*get(T_sqs()))()); }
W void w_skey(const unsigned char* in, unsigned n, Out* o) { SETUP(0) fill(o, d, in, (d.*get(T_skey()))()); }
W void w_snum(const unsigned char* in, unsigned n, Out* o) { SETUP(0) fill(o, d, in, (d.*get(T_snum()))()); }
W void w_ssc(const unsigned char* in, unsigned n, unsigned found, Out* o) { SETUP(0) d.*get(T_found()) = found != 0; fill(o, d, in, (d.*get(T_ssc()))()); }
W void w_skw(const unsigned char* in, unsigned n, unsigned which, Out* o) {
  SETUP(0) const char* kw = which == 0 ? "true" : which == 1 ? "false" : "null";
  fill(o, d, in, (d.*get(T_skw()))(kw));
}
W void w_hex4(const unsigned char* in, unsigned n, Out* o) { SETUP(0) uint16_t r = 0; Code c = (d.*get(T_hex4()))(r); o->aux = r; fill(o, d, in, c); }
W unsigned w_cbn(char c) { return get(T_cbn())(c); }
W unsigned w_cbnqs(char c) { return get(T_cbnqs())(c); }
W unsigned w_isq(char c) { return get(T_isq())(c); }

// ---- parseNumericValue: buffer filling; parseNumber is cut in unit jd_num. Reports what was stored.
W void w_pnum(const unsigned char* in, unsigned n, unsigned fm, unsigned char* bufcopy, Out* o, unsigned* kind, uint64_t* bits) {
  SETUP(fm)
  VariantData v;
  Code c = (d.*get(T_pnum()))(v);
  for (unsigned i = 0; i < 64; i++) bufcopy[i] = (unsigned char)(d.*get(T_buf()))[i];
  *kind = 0; *bits = 0;
  if (c == DeserializationError::Ok) {
    JsonVariantConst jv(&v, &rm);
    if (jv.is<JsonUInt>() && !jv.is<JsonInteger>()) { *kind = 3; *bits = jv.as<JsonUInt>(); }
    else if (jv.is<JsonInteger>()) { *kind = 2; *bits = uint64_t(jv.as<JsonInteger>()); }
    else if (jv.is<double>()) { *kind = 4; double x = jv.as<double>(); memcpy(bits, &x, 8); }
  }
  o->aux = unsigned(rm.overflowed());
  fill(o, d, in, c);
  v.clear(&rm);
}
// ---- parseStringValue: string saved into the variant
W void w_psv(const unsigned char* in, unsigned n, unsigned fm, unsigned char* out, unsigned outcap, unsigned* outlen, Out* o) {
  SETUP(fm)
  VariantData v;
  Code c = (d.*get(T_psv()))(v);
  *outlen = 0;
  if (c == DeserializationError::Ok) {
    JsonString s = v.asString();
    *outlen = unsigned(s.size()); o->aux2 = s.isNull() ? 0 : 1;
    for (unsigned i = 0; i < s.size() + 1 && i < outcap; i++) out[i] = (unsigned char)s.c_str()[i];
  }
  o->aux = unsigned(rm.overflowed()); fill(o, d, in, c);
  v.clear(&rm);
}

// ---- container steps (children cut in unit jd_cont): AllowAll
W void w_parse_array(const unsigned char* in, unsigned n, unsigned fm, unsigned char limit, Out* o, int* tags) {
  SETUP(fm)
  VariantData v; ArrayData& a = v.toArray();
  d.*get(T_found()) = true; (void)(d.*get(T_latch())).current();  // the caller has looked at '[' already
  Code c = (d.*get(T_pa()))(a, AllowAllFilter(), NL(limit));
  o->aux2 = unsigned(rm.overflowed()); fill(o, d, in, c); (void)tags;
}
W void w_skip_array(const unsigned char* in, unsigned n, unsigned char limit, Out* o) {
  SETUP(0) d.*get(T_found()) = true; (void)(d.*get(T_latch())).current();
  fill(o, d, in, (d.*get(T_sa()))(NL(limit)));
}
W void w_skip_object(const unsigned char* in, unsigned n, unsigned char limit, Out* o) {
  SETUP(0) d.*get(T_found()) = true; (void)(d.*get(T_latch())).current();
  fill(o, d, in, (d.*get(T_so()))(NL(limit)));
}
// object step: reports member count and the keys in order (first 4, each up to 4 bytes + length)
struct ObjOut { unsigned count; unsigned klen[4]; unsigned char key[4][4]; unsigned isnull[4]; int tag[4]; };
W void w_parse_object(const unsigned char* in, unsigned n, unsigned fm, unsigned char limit, Out* o, ObjOut* oo) {
  SETUP(fm)
  VariantData v; ObjectData& ob = v.toObject();
  d.*get(T_found()) = true; (void)(d.*get(T_latch())).current();
  Code c = (d.*get(T_po()))(ob, AllowAllFilter(), NL(limit));
  JsonObjectConst obj(&ob, &rm);
  unsigned k = 0;
  for (JsonPairConst p : obj) {
    if (k < 4) { oo->klen[k] = unsigned(p.key().size()); for (unsigned i = 0; i < 4 && i < p.key().size(); i++) oo->key[k][i] = (unsigned char)p.key().c_str()[i]; oo->isnull[k] = p.value().isNull(); oo->tag[k] = p.value().is<int>() ? p.value().as<int>() : -1; }
    k++;
  }
  oo->count = k; o->aux = unsigned(ob.size(&rm)); o->aux2 = unsigned(rm.overflowed()); fill(o, d, in, c);
}
// ---- parseVariant / skipVariant dispatch (everything below cut in unit jd_var)
W void w_parse_variant(const unsigned char* in, unsigned n, unsigned char limit, Out* o, unsigned* kind) {
  SETUP(0)
  VariantData v;
  Code c = (d.*get(T_pv()))(v, AllowAllFilter(), NL(limit));
  JsonVariantConst jv(&v, &rm);
  *kind = jv.isNull() ? 0 : jv.is<bool>() ? (jv.as<bool>() ? 2 : 1) : jv.is<JsonArrayConst>() ? 3 : jv.is<JsonObjectConst>() ? 4 : 5;
  fill(o, d, in, c);
}
W void w_skip_variant(const unsigned char* in, unsigned n, unsigned char limit, Out* o) {
  SETUP(0) fill(o, d, in, (d.*get(T_sv()))(NL(limit)));
}
// ---- top level parse(): trailing-character rule (parseVariant cut in unit jd_top)
W void w_parse_top(const unsigned char* in, unsigned n, unsigned char limit, Out* o) {
  SETUP(0)
  VariantData v;
  DeserializationError e = d.parse(v, AllowAllFilter(), NL(limit));
  fill(o, d, in, e.code());
}
W int w_pqs0(const unsigned char* in, unsigned n, unsigned char* out, unsigned* outlen, unsigned* consumed) {
  arena.next = 0;
  ResourceManager rm(&arena);
  RD r = mkReader(in, n);
  JD d(&rm, r);
  (d.*get(T_sb())).startString();
  Code c = (d.*get(T_pqs()))();
  *outlen = 0;
  if (c == DeserializationError::Ok) {
    JsonString s = (d.*get(T_sb())).str();
    *outlen = unsigned(s.size());
    for (unsigned i = 0; i < s.size() && i < 32; i++) out[i] = (unsigned char)s.c_str()[i];
  }
  return int(c);
}
W void w_var_setbool(VariantData* v, unsigned b) { v->setBoolean(b != 0); }
// ---- parseStringValue into a document that already holds one string (de-duplication through StringBuilder::save)
struct DedupOut { unsigned code, len, shared, pre_refs, pre_len, overflowed; unsigned char bytes[8]; };
W void w_psv_pre(const unsigned char* in, unsigned n, const char* pre, unsigned prelen, DedupOut* o) {
  SETUP(0)
  StringNode* p = rm.saveString(adaptString(pre, prelen));
  VariantData v;
  Code c = (d.*get(T_psv()))(v);
  o->code = unsigned(c); o->len = 0; o->shared = 0; o->overflowed = rm.overflowed();
  if (c == DeserializationError::Ok) {
    JsonString s = v.asString(); o->len = unsigned(s.size());
    for (unsigned i = 0; i < 8 && i < s.size(); i++) o->bytes[i] = (unsigned char)s.c_str()[i];
    o->shared = p && s.c_str() == p->data;
  }
  o->pre_refs = p ? unsigned(p->references) : 0; o->pre_len = p ? unsigned(p->length) : 0;
}
// ---- parseArray<Filter> step: the filter document is one of a small family built with the low-level API
ROB(T_app, CollectionData, void (CollectionData::*)(Slot<VariantData>, const ResourceManager*), appendOne)
static void buildFilter(VariantData& f, ResourceManager& frm, unsigned shape) {
  switch (shape) {
    case 0: f.setBoolean(true); break;                                        // true
    case 1: f.setBoolean(false); break;                                       // false
    // (not through addElement: that function is cut in the step units)
    case 2: { ArrayData& a = f.toArray(); auto sl = frm.allocVariant(); if (sl) { (a.*get(T_app()))(sl, &frm); sl->setBoolean(true); } break; }    // [true]
    case 3: { ArrayData& a = f.toArray(); auto sl = frm.allocVariant(); if (sl) { (a.*get(T_app()))(sl, &frm); sl->setBoolean(false); } break; }   // [false]
    case 4: f.toArray(); break;                                               // []
    case 5: f.toObject(); break;                                              // {}
    default: break;                                                           // null
  }
}
static Arena farena;
W void w_parse_array_f(const unsigned char* in, unsigned n, unsigned char limit, unsigned shape, Out* o) {
  SETUP(0)
  farena.reset(0); ResourceManager frm(&farena); VariantData fv; buildFilter(fv, frm, shape);
  Filter filter{JsonVariantConst(&fv, &frm)};
  VariantData v; 
  d.*get(T_found()) = true; (void)(d.*get(T_latch())).current();
  Code c;
  if (filter.allowArray()) { ArrayData& a = v.toArray(); c = (d.*get(T_paf()))(a, filter, NL(limit)); o->aux = 1; }
  else { c = (d.*get(T_sa()))(NL(limit)); o->aux = 0; }      // what parseVariant<Filter> does for '['
  o->aux2 = unsigned(rm.overflowed()); fill(o, d, in, c);
}
W size_t w_jsa_size(const JsonStringAdapter* a) { return a->size(); }
W const char* w_jsa_data(const JsonStringAdapter* a) { return a->data(); }
// ---- parseObject<Filter> step: filter documents {"k":true} / {"x":true} / {} / {"*":true} / true, linked without the cut functions
ROB(T_app2, CollectionData, void (CollectionData::*)(Slot<VariantData>, Slot<VariantData>, const ResourceManager*), appendPair)
static VariantData* fmember(ObjectData& o, ResourceManager& rm, const char* key) {
  StringNode* k = rm.saveString(adaptString(key)); auto ks = rm.allocVariant(); auto vs = rm.allocVariant();
  if (!k || !ks || !vs) return nullptr;
  ks->setOwnedString(k); (o.*get(T_app2()))(ks, vs, &rm); return vs.ptr();
}
W void w_parse_object_f(const unsigned char* in, unsigned n, unsigned char limit, unsigned shape, Out* o) {
  SETUP(0)
  farena.reset(0); ResourceManager frm(&farena); VariantData fv; VariantData* m;
  switch (shape) {
    case 0: fv.setBoolean(true); break;
    case 1: { ObjectData& fo = fv.toObject(); if ((m = fmember(fo, frm, "k"))) m->setBoolean(true); break; }
    case 2: { ObjectData& fo = fv.toObject(); if ((m = fmember(fo, frm, "x"))) m->setBoolean(true); break; }
    case 3: fv.toObject(); break;
    case 4: { ObjectData& fo = fv.toObject(); if ((m = fmember(fo, frm, "*"))) m->setBoolean(true); break; }
    default: break;
  }
  Filter filter{JsonVariantConst(&fv, &frm)};
  VariantData v;
  d.*get(T_found()) = true; (void)(d.*get(T_latch())).current();
  Code c;
  if (filter.allowObject()) { ObjectData& ob = v.toObject(); c = (d.*get(T_pof()))(ob, filter, NL(limit)); o->aux = 1; }
  else { c = (d.*get(T_so()))(NL(limit)); o->aux = 0; }      // what parseVariant<Filter> does for '{'
  o->aux2 = unsigned(rm.overflowed()); fill(o, d, in, c);
}
// ---- parseVariant<Filter> dispatch (every routine below it cut in unit jd_var): kind observed after the call
static unsigned vkind(VariantData& v, ResourceManager& rm) { JsonVariantConst jv(&v, &rm); return jv.isNull() ? 0 : jv.is<bool>() ? (jv.as<bool>() ? 2 : 1) : jv.is<JsonArrayConst>() ? 3 : jv.is<JsonObjectConst>() ? 4 : 5; }
W void w_parse_variant_f(const unsigned char* in, unsigned n, unsigned char limit, unsigned shape, unsigned preset, Out* o, unsigned* kind) {
  SETUP(0)
  farena.reset(0); ResourceManager frm(&farena); VariantData fv; buildFilter(fv, frm, shape);
  Filter filter{JsonVariantConst(&fv, &frm)};
  VariantData v; (void)preset;
  Code c = (d.*get(T_pvf()))(v, filter, NL(limit));
  *kind = vkind(v, rm); o->aux = unsigned(rm.overflowed()); fill(o, d, in, c);
}
W void w_parse_variant_all(const unsigned char* in, unsigned n, unsigned char limit, Out* o, unsigned* kind) {
  SETUP(0)
  VariantData v;
  Code c = (d.*get(T_pv()))(v, AllowAllFilter(), NL(limit));
  *kind = vkind(v, rm); o->aux = unsigned(rm.overflowed()); fill(o, d, in, c);
}
