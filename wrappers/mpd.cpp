// MessagePack reader: one activation of parseVariant / readArray / readObject / readKey
#include "common.hpp"
using RD = VReader;
using MD = MsgPackDeserializer<RD>;
using Code = DeserializationError::Code;
using NL = DeserializationOption::NestingLimit;
ROB(T_pv, MD, Code (MD::*)(VariantData*, AllowAllFilter, NL), template parseVariant<AllowAllFilter>)
ROB(T_ra, MD, Code (MD::*)(VariantData*, size_t, AllowAllFilter, NL), template readArray<AllowAllFilter>)
ROB(T_ro, MD, Code (MD::*)(VariantData*, size_t, AllowAllFilter, NL), template readObject<AllowAllFilter>)
ROB(T_rk, MD, Code (MD::*)(), readKey)
ROB(T_reader, MD, RD MD::*, reader_)
ROB(T_sbuf, MD, StringBuffer MD::*, stringBuffer_)
ROB(T_found, MD, bool MD::*, foundSomething_)
static Arena arena;
W unsigned w_md_pos(MD* d, const unsigned char* base) { return unsigned((d->*get(T_reader())).p - base); }
W unsigned w_md_remaining(MD* d) { RD& r = d->*get(T_reader()); return unsigned(r.end - r.p); }
W void w_md_consume(MD* d, unsigned k) { (d->*get(T_reader())).p += k; }
W void w_var_mark(VariantData* v, int tag) { v->setInteger(int32_t(tag), nullptr); }
struct MOut { unsigned code, consumed, kind, len, found, overflowed, max_request; uint64_t bits; unsigned char bytes[16]; };
static void observe(VariantData& v, ResourceManager& rm, MOut* o) {
  o->kind = 99; o->bits = 0; o->len = 0;
  switch (v.type()) {
    case VariantType::Null: o->kind = 0; break;
    case VariantType::Boolean: o->kind = v.asBoolean(&rm) ? 2 : 1; break;
    case VariantType::Int32: case VariantType::Int64: o->kind = 3; o->bits = uint64_t(v.asIntegral<int64_t>(&rm)); break;
    case VariantType::Uint32: case VariantType::Uint64: o->kind = 4; o->bits = v.asIntegral<uint64_t>(&rm); break;
    case VariantType::Float:
#if ARDUINOJSON_USE_DOUBLE
    case VariantType::Double:
#endif
    { o->kind = 5; double x = v.asFloat<double>(&rm); memcpy(&o->bits, &x, 8); break; }
    case VariantType::OwnedString: case VariantType::LinkedString: { o->kind = 7; JsonString s = v.asString(); o->len = unsigned(s.size()); for (unsigned i = 0; i < 16 && i < s.size() + 1; i++) o->bytes[i] = (unsigned char)s.c_str()[i]; break; }
    case VariantType::RawString: { o->kind = 8; JsonString s = v.asRawString(); o->len = unsigned(s.size()); for (unsigned i = 0; i < 16 && i < s.size(); i++) o->bytes[i] = (unsigned char)s.c_str()[i]; break; }
    case VariantType::Array: o->kind = 9; break;
    case VariantType::Object: o->kind = 10; break;
  }
}
W void w_md_parse_variant(const unsigned char* in, unsigned n, unsigned fm, unsigned char limit, MOut* o) {
  arena.reset(fm); ResourceManager rm(&arena); MD d(&rm, VReader{in, in + n});
  VariantData v;
  Code c = (d.*get(T_pv()))(&v, AllowAllFilter(), NL(limit));
  o->code = unsigned(c); o->consumed = w_md_pos(&d, in); o->found = d.*get(T_found()); o->overflowed = rm.overflowed();
  observe(v, rm, o);
}
W void w_md_parse_top(const unsigned char* in, unsigned n, MOut* o) {   // parse(): EmptyInput rule
  arena.reset(0); ResourceManager rm(&arena); MD d(&rm, VReader{in, in + n});
  VariantData v;
  DeserializationError e = d.parse(v, AllowAllFilter(), NL(10));
  o->code = unsigned(e.code()); o->consumed = w_md_pos(&d, in);
  observe(v, rm, o);
}
// container steps: parseVariant (children) and addElement/addMember are cut in unit mpd_cont
W void w_md_read_array(const unsigned char* in, unsigned n, size_t count, unsigned char limit, MOut* o) {
  arena.reset(0); ResourceManager rm(&arena); MD d(&rm, VReader{in, in + n});
  VariantData v;
  Code c = (d.*get(T_ra()))(&v, count, AllowAllFilter(), NL(limit));
  o->code = unsigned(c); o->consumed = w_md_pos(&d, in); o->kind = unsigned(v.type());
}
W void w_md_read_object(const unsigned char* in, unsigned n, size_t count, unsigned char limit, MOut* o) {
  arena.reset(0); ResourceManager rm(&arena); MD d(&rm, VReader{in, in + n});
  VariantData v;
  Code c = (d.*get(T_ro()))(&v, count, AllowAllFilter(), NL(limit));
  o->code = unsigned(c); o->consumed = w_md_pos(&d, in); o->kind = unsigned(v.type());
}
W void w_md_read_key(const unsigned char* in, unsigned n, MOut* o) {
  arena.reset(0); ResourceManager rm(&arena); MD d(&rm, VReader{in, in + n});
  Code c = (d.*get(T_rk()))();
  o->code = unsigned(c); o->consumed = w_md_pos(&d, in); o->len = 0; o->overflowed = rm.overflowed();
  if (c == DeserializationError::Ok) { JsonString s = (d.*get(T_sbuf())).str(); o->len = unsigned(s.size()); for (unsigned i = 0; i < 16 && i < o->len + 1; i++) o->bytes[i] = (unsigned char)s.c_str()[i]; }
}
W unsigned w_maxstr(void) { return unsigned(ARENA_CHUNK - sizeofString(0)); }   // longest string one arena chunk can hold
// ---- readString into a document that already holds one string (de-duplication through StringBuffer::save)
struct DedupOut { unsigned code, len, shared, pre_refs, pre_len, overflowed, kind; unsigned char bytes[8]; };
W void w_md_str_pre(const unsigned char* in, unsigned n, const char* pre, unsigned prelen, DedupOut* o) {
  arena.reset(0); ResourceManager rm(&arena); MD d(&rm, VReader{in, in + n});
  StringNode* p = rm.saveString(adaptString(pre, prelen));
  VariantData v;
  Code c = (d.*get(T_pv()))(&v, AllowAllFilter(), NL(3));
  o->code = unsigned(c); o->len = 0; o->shared = 0; o->overflowed = rm.overflowed(); o->kind = unsigned(v.type());
  if (c == DeserializationError::Ok && (v.type() == VariantType::OwnedString || v.type() == VariantType::RawString)) {
    JsonString s = v.type() == VariantType::OwnedString ? v.asString() : v.asRawString(); o->len = unsigned(s.size());
    for (unsigned i = 0; i < 8 && i < s.size(); i++) o->bytes[i] = (unsigned char)s.c_str()[i];
    o->shared = p && s.c_str() == p->data;
  }
  o->pre_refs = p ? unsigned(p->references) : 0; o->pre_len = p ? unsigned(p->length) : 0;
}
W void w_md_set_key(MD* d, const unsigned char* k, unsigned n) { StringBuffer& sb = d->*get(T_sbuf()); char* p = sb.reserve(n); if (p) for (unsigned i = 0; i < n; i++) p[i] = char(k[i]); }
// ---- parseVariant<Filter>: scalars under a filter that may not admit values
using DeserializationOption::Filter;
ROB(T_pvf, MD, Code (MD::*)(VariantData*, Filter, NL), template parseVariant<Filter>)
static Arena farena;
W void w_md_parse_variant_f(const unsigned char* in, unsigned n, unsigned shape, MOut* o) {
  arena.reset(0); ResourceManager rm(&arena); MD d(&rm, VReader{in, in + n});
  farena.reset(0); ResourceManager frm(&farena); VariantData fv;
  switch (shape) { case 0: fv.setBoolean(true); break; case 1: fv.setBoolean(false); break; case 2: fv.toObject(); break; case 3: fv.toArray(); break; default: break; }
  Filter filter{JsonVariantConst(&fv, &frm)};
  VariantData v;
  Code c = (d.*get(T_pvf()))(filter.allow() ? &v : nullptr, filter, NL(5));
  o->code = unsigned(c); o->consumed = w_md_pos(&d, in); o->found = d.*get(T_found()); o->overflowed = rm.overflowed(); o->max_request = unsigned(arena.max_request);
  observe(v, rm, o);
}
// ---- readObject<Filter> / readArray<Filter> steps: filter documents built with the low-level API
ROB(T_raf, MD, Code (MD::*)(VariantData*, size_t, Filter, NL), template readArray<Filter>)
ROB(T_rof, MD, Code (MD::*)(VariantData*, size_t, Filter, NL), template readObject<Filter>)
// (addMember / addElement are cut in the step units, so the filter documents are linked with appendOne / appendPair directly)
ROB(T_app1, CollectionData, void (CollectionData::*)(Slot<VariantData>, const ResourceManager*), appendOne)
ROB(T_app2, CollectionData, void (CollectionData::*)(Slot<VariantData>, Slot<VariantData>, const ResourceManager*), appendPair)
static VariantData* fmember(ObjectData& o, ResourceManager& rm, const char* key) {
  StringNode* k = rm.saveString(adaptString(key)); auto ks = rm.allocVariant(); auto vs = rm.allocVariant();
  if (!k || !ks || !vs) return nullptr;
  ks->setOwnedString(k); (o.*get(T_app2()))(ks, vs, &rm); return vs.ptr();
}
static VariantData* felement(ArrayData& a, ResourceManager& rm) { auto s = rm.allocVariant(); if (!s) return nullptr; (a.*get(T_app1()))(s, &rm); return s.ptr(); }
static void buildF(VariantData& f, ResourceManager& rm, unsigned shape) {
  VariantData* m;
  switch (shape) {
    case 0: f.setBoolean(true); break;                                                              // true
    case 1: { ObjectData& o = f.toObject(); if ((m = fmember(o, rm, "k"))) m->setBoolean(true); break; }   // {"k":true}
    case 2: { ObjectData& o = f.toObject(); if ((m = fmember(o, rm, "x"))) m->setBoolean(true); break; }   // {"x":true}
    case 3: f.toObject(); break;                                                                    // {}
    case 4: { ObjectData& o = f.toObject(); if ((m = fmember(o, rm, "*"))) m->setBoolean(true); break; }   // {"*":true}
    case 5: { ArrayData& a = f.toArray(); if ((m = felement(a, rm))) m->setBoolean(true); break; }         // [true]
    case 6: f.toArray(); break;                                                                     // []
    default: break;                                                                                 // null
  }
}
W void w_md_read_object_f(const unsigned char* in, unsigned n, size_t count, unsigned char limit, unsigned shape, MOut* o) {
  arena.reset(0); ResourceManager rm(&arena); MD d(&rm, VReader{in, in + n});
  farena.reset(0); ResourceManager frm(&farena); VariantData fv; buildF(fv, frm, shape); Filter filter{JsonVariantConst(&fv, &frm)};
  VariantData v;
  Code c = (d.*get(T_rof()))(filter.allow() ? &v : nullptr, count, filter, NL(limit));
  o->code = unsigned(c); o->consumed = w_md_pos(&d, in); o->kind = unsigned(v.type()); o->found = filter.allowObject();
}
W void w_md_read_array_f(const unsigned char* in, unsigned n, size_t count, unsigned char limit, unsigned shape, MOut* o) {
  arena.reset(0); ResourceManager rm(&arena); MD d(&rm, VReader{in, in + n});
  farena.reset(0); ResourceManager frm(&farena); VariantData fv; buildF(fv, frm, shape); Filter filter{JsonVariantConst(&fv, &frm)};
  VariantData v;
  Code c = (d.*get(T_raf()))(filter.allow() ? &v : nullptr, count, filter, NL(limit));
  o->code = unsigned(c); o->consumed = w_md_pos(&d, in); o->kind = unsigned(v.type()); o->found = filter.allowArray();
}
