// Shared by every wrapper TU. The wrappers only *call* the real headers of /repo/src; nothing is re-implemented.
#pragma once
#include <ArduinoJson.h>
using namespace ArduinoJson;
using namespace ArduinoJson::detail;
#define W extern "C" __attribute__((noinline))
// private member access without touching /repo: explicit instantiation ignores access control
template <class Tag, typename Tag::type M> struct Rob { friend typename Tag::type get(Tag) { return M; } };
#define ROB(tag, cls, ty, mem) struct tag { using type = ty; friend type get(tag); }; template struct Rob<tag, &cls::mem>;

// bounded reader over a caller buffer; `pos` is observable by the harness
struct VReader {
  const unsigned char* p; const unsigned char* end;
  int read() { return p < end ? *p++ : -1; }
  size_t readBytes(char* b, size_t n) { size_t i = 0; while (i < n && p < end) b[i++] = char(*p++); return i; }
};

#ifndef ARENA_CHUNK
#define ARENA_CHUNK 64
#endif
#ifndef ARENA_N
#define ARENA_N 8
#endif
// Arena allocator with a ghost ledger. reallocate is in place (chunks have fixed size).
// failmask bit k makes allocator call number k (allocate or reallocate) fail.
#ifndef ARENA_LEDGER
struct Arena : Allocator {
  // light arena (default): no ledger; failmask bit k makes allocator call number k (allocate or reallocate) fail
  alignas(8) char mem[ARENA_N][ARENA_CHUNK]; unsigned next = 0; unsigned calls = 0; unsigned failmask = 0; unsigned n_free = 0; size_t max_request = 0;
  void* allocate(size_t n) override { unsigned k = calls++; if (n > max_request) max_request = n; if ((failmask >> k) & 1) return nullptr; if (n > ARENA_CHUNK || next >= ARENA_N) return nullptr; return mem[next++]; }
  void deallocate(void*) override { n_free++; }
  void* reallocate(void* p, size_t n) override { unsigned k = calls++; if ((failmask >> k) & 1) return nullptr; return n <= ARENA_CHUNK ? p : nullptr; }
  void reset(unsigned fm = 0) { next = 0; calls = 0; failmask = fm; n_free = 0; max_request = 0; }
};
#else
struct Arena : Allocator {
  alignas(8) char mem[ARENA_N][ARENA_CHUNK];
  unsigned char live[ARENA_N];      // 1 while chunk i is handed out
  unsigned next = 0, calls = 0, failmask = 0;
  unsigned n_alloc = 0, n_free = 0, n_realloc = 0, bad = 0;  // bad: foreign / dead pointer given back
  size_t max_request = 0;
  // index of the chunk p points to; a pointer that is not a chunk start (foreign, interior) gives -1.
  // Loop-free on purpose (symbolic execution cost); comparing a foreign pointer trips CBMC's same-object check.
  int idx(void* p) { size_t off = size_t((char*)p - &mem[0][0]); if (off >= sizeof(mem) || off % ARENA_CHUNK) return -1; return int(off / ARENA_CHUNK); }
  void* allocate(size_t n) override {
    unsigned k = calls++; n_alloc++; if (n > max_request) max_request = n;
    if ((failmask >> k) & 1) return nullptr;
    if (n > ARENA_CHUNK || next >= ARENA_N) return nullptr;
    live[next] = 1; return mem[next++];
  }
  void deallocate(void* p) override { n_free++; if (!p) return; int i = idx(p); if (i < 0 || !live[i]) bad++; else live[i] = 0; }
  void* reallocate(void* p, size_t n) override {
    unsigned k = calls++; n_realloc++; if (n > max_request) max_request = n;
    int i = idx(p); if (p && (i < 0 || !live[i])) bad++;
    if ((failmask >> k) & 1) return nullptr;
    if (!p) { if (n > ARENA_CHUNK || next >= ARENA_N) return nullptr; live[next] = 1; return mem[next++]; }
    return n <= ARENA_CHUNK ? p : nullptr;
  }
  void reset(unsigned fm = 0) { next = calls = n_alloc = n_free = n_realloc = bad = 0; max_request = 0; failmask = fm; memset(live, 0, sizeof live); }
  unsigned liveCount() { unsigned c = 0; for (unsigned i = 0; i < ARENA_N; i++) c += live[i]; return c; }
};
#endif
