// C11: DeserializationOption::Filter navigation on a family of concrete filter documents; the key is symbolic
#include "common.hpp"
using DeserializationOption::Filter;
static Arena arena;
// filter documents are built with the low-level API (no proxies / key lookups / recursive clear while building)
static VariantData* addm0(ObjectData& ob, ResourceManager& rm, const char* key) { StringNode* k = rm.saveString(adaptString(key)); return k ? ob.addMember(k, &rm) : nullptr; }
static VariantData* adde0(ArrayData& a, ResourceManager& rm) { return a.addElement(&rm); }
static void build(VariantData& f, ResourceManager& rm, unsigned shape) {
  VariantData* m;
  switch (shape) {
    case 0: f.setBoolean(true); break;
    case 1: f.setBoolean(false); break;
    case 2: break;                                   // null
    case 3: f.setInteger(int32_t(1), &rm); break;
    case 4: f.toObject(); break;                     // {}
    case 5: f.toArray(); break;                      // []
    case 6: { ObjectData& o = f.toObject(); if ((m = addm0(o, rm, "a"))) m->setBoolean(true); break; }                    // {"a":true}
    case 7: { ObjectData& o = f.toObject(); if ((m = addm0(o, rm, "a"))) m->setBoolean(false); break; }                   // {"a":false}
    case 8: { ObjectData& o = f.toObject(); if ((m = addm0(o, rm, "*"))) m->setBoolean(true); break; }                    // {"*":true}
    case 9: { ObjectData& o = f.toObject(); if ((m = addm0(o, rm, "*"))) m->setBoolean(true); if ((m = addm0(o, rm, "a"))) m->setBoolean(false); break; }   // {"*":true,"a":false}
    case 10: { ObjectData& o = f.toObject(); if ((m = addm0(o, rm, "a"))) { ObjectData& i = m->toObject(); VariantData* n = addm0(i, rm, "b"); if (n) n->setBoolean(true); } break; }  // {"a":{"b":true}}
    case 11: { ArrayData& a = f.toArray(); if ((m = adde0(a, rm))) m->setBoolean(true); break; }                          // [true]
    case 12: { ArrayData& a = f.toArray(); if ((m = adde0(a, rm))) { ObjectData& i = m->toObject(); VariantData* n = addm0(i, rm, "a"); if (n) n->setBoolean(true); } break; }  // [{"a":true}]
    case 13: { ArrayData& a = f.toArray(); if ((m = adde0(a, rm))) { ArrayData& i = m->toArray(); VariantData* n = adde0(i, rm); if (n) n->setBoolean(true); } break; }       // [[true]]
    case 14: { ObjectData& o = f.toObject(); addm0(o, rm, "a"); if ((m = addm0(o, rm, "*"))) m->setBoolean(true); break; } // {"a":null,"*":true}
  }
}
static unsigned bits(Filter x) { return (x.allow() ? 1u : 0u) | (x.allowArray() ? 2u : 0u) | (x.allowObject() ? 4u : 0u) | (x.allowValue() ? 8u : 0u); }
struct FOut { unsigned self, key, idx, key_key, idx_key, idx_idx; };
W void w_filter(unsigned shape, const char* key, FOut* o) {
  arena.reset(); ResourceManager rm(&arena); VariantData fv; build(fv, rm, shape);
  Filter root(JsonVariantConst(&fv, &rm));
  o->self = bits(root); o->key = bits(root[key]); o->idx = bits(root[0UL]);
  o->key_key = bits(root[key]["b"]); o->idx_key = bits(root[0UL][key]); o->idx_idx = bits(root[0UL][0UL]);
}
// object-shaped filters built with the low-level API (no proxies, no key lookup while building): {"*":true} and {"a":true}
W void w_filter_obj(unsigned star, const char* key, FOut* o) {
  arena.reset(); ResourceManager rm(&arena);
  VariantData v; ObjectData& ob = v.toObject();
  StringNode* k = rm.saveString(adaptString(star ? "*" : "a"));
  VariantData* m = ob.addMember(k, &rm);
  if (m) m->setBoolean(true);
  Filter root(JsonVariantConst(&v, &rm));
  o->self = bits(root); o->key = bits(root[key]); o->idx = bits(root[0UL]);
  o->key_key = 0; o->idx_key = 0; o->idx_idx = bits(root[0UL][0UL]);
}
// ---- ObjectData key lookup (C01/C14): one member whose key has MLEN symbolic bytes; lookup with a sized key of LLEN bytes
W unsigned w_obj_find(const char* mk, size_t mlen, const char* lk, size_t llen, const char* zk) {
  arena.reset(); ResourceManager rm(&arena);
  VariantData v; ObjectData& ob = v.toObject();
  StringNode* k = rm.saveString(adaptString(mk, mlen));
  VariantData* m = ob.addMember(k, &rm); if (!m) return 99; m->setBoolean(true);
  unsigned r = 0;
  if (ob.getMember(adaptString(lk, llen), &rm) == m) r |= 1;                 // sized lookup
  if (zk && ob.getMember(adaptString(zk), &rm) == m) r |= 2;                 // zero-terminated lookup
  JsonObjectConst o(&ob, &rm);
  if (!o[JsonString(lk, llen)].isNull()) r |= 4;                            // public API lookup
  return r;
}
// ---- object equality (C18), objects built with the low-level API: {"a":x,"b":y|null} vs {"a":z,K:w|null}, K = "b" or "c"
static VariantData* addm(ObjectData& ob, ResourceManager& rm, const char* key) { StringNode* k = rm.saveString(adaptString(key)); return k ? ob.addMember(k, &rm) : nullptr; }
W unsigned w_objeq_low(int32_t x, int32_t y, unsigned ynull, int32_t z, int32_t w, unsigned wnull, unsigned second_key_c, unsigned swap_order) {
  arena.reset(); ResourceManager rm(&arena);
  VariantData v1, v2; ObjectData& o1 = v1.toObject(); ObjectData& o2 = v2.toObject();
  VariantData* m = addm(o1, rm, "a"); if (!m) return 99; m->setInteger(x, &rm);
  m = addm(o1, rm, "b"); if (!m) return 99; if (!ynull) m->setInteger(y, &rm);
  const char* k = second_key_c ? "c" : "b";
  if (swap_order) { m = addm(o2, rm, k); if (!m) return 99; if (!wnull) m->setInteger(w, &rm); m = addm(o2, rm, "a"); if (!m) return 99; m->setInteger(z, &rm); }
  else { m = addm(o2, rm, "a"); if (!m) return 99; m->setInteger(z, &rm); m = addm(o2, rm, k); if (!m) return 99; if (!wnull) m->setInteger(w, &rm); }
  JsonVariantConst a(&v1, &rm), b(&v2, &rm);
  unsigned r = (a == b) ? 1u : 0u; r |= (b == a) ? 2u : 0u; r |= (a != b) ? 4u : 0u;
  return r;
}
// ---- object history at the ObjectData level (C04/C06): add k1:v1, add k2:v2, remove K, add k3:v3; keys are 1 symbolic byte
struct OHist { unsigned size, n, calls_mid, calls_end, found1, found2, found3; unsigned char keys[4]; int32_t vals[4]; };
W void w_obj_hist(const char* k1, const char* k2, const char* k3, int32_t v1, int32_t v2, int32_t v3, unsigned removeWhich, OHist* h) {
  arena.reset(); ResourceManager rm(&arena);
  VariantData v; ObjectData& ob = v.toObject(); VariantData* m;
  StringNode* s1 = rm.saveString(adaptString(k1, 1)); m = ob.addMember(s1, &rm); if (m) m->setInteger(v1, &rm);
  StringNode* s2 = rm.saveString(adaptString(k2, 1)); m = ob.addMember(s2, &rm); if (m) m->setInteger(v2, &rm);
  ob.removeMember(adaptString(removeWhich == 1 ? k1 : k2, 1), &rm);
  h->calls_mid = arena.calls;
  StringNode* s3 = rm.saveString(adaptString(k3, 1)); m = ob.addMember(s3, &rm); if (m) m->setInteger(v3, &rm);
  h->calls_end = arena.calls;
  h->size = unsigned(ob.size(&rm)); h->n = 0;
  JsonObjectConst o(&ob, &rm);
  for (JsonPairConst p : o) { if (h->n < 4) { h->keys[h->n] = (unsigned char)p.key().c_str()[0]; h->vals[h->n] = p.value().as<int32_t>(); } h->n++; }
  h->found1 = ob.getMember(adaptString(k1, 1), &rm) != nullptr; h->found2 = ob.getMember(adaptString(k2, 1), &rm) != nullptr; h->found3 = ob.getMember(adaptString(k3, 1), &rm) != nullptr;
}
