// K2: one MemoryPoolList operation from an ARBITRARY valid pre-state (symbolic metadata), tiny geometry.
// The pool table lives in a static array that is large enough to make an overflow of maxPools observable.
#include "common.hpp"
struct Cell { alignas(8) char raw[16]; };   // stands for a slot (>= sizeof(FreeSlot))
using PL = MemoryPoolList<Cell>;
using Pool = MemoryPool<Cell>;
ROB(T_pools, PL, Pool* PL::*, pools_)
ROB(T_pre, PL, Pool (PL::*)[ARDUINOJSON_INITIAL_POOL_COUNT], preallocatedPools_)
ROB(T_count, PL, PoolCount PL::*, count_)
ROB(T_cap, PL, PoolCount PL::*, capacity_)
ROB(T_free, PL, SlotId PL::*, freeList_)
ROB(T_pcap, Pool, SlotCount Pool::*, capacity_)
ROB(T_pusage, Pool, SlotCount Pool::*, usage_)
ROB(T_pslots, Pool, Cell* Pool::*, slots_)
static Arena arena;
#ifndef TABLE
#define TABLE 40
#endif
static Pool table[TABLE];
static Cell lastSlots[ARDUINOJSON_POOL_CAPACITY];
struct POut { unsigned ok, id, count, capacity, last_usage, last_capacity, heap_table, allocs, max_request, maxPools, nullSlot, poolCap, initial; };
// allocSlot from the state: `count` pools exist, the last one has `lastUsage` of `lastCap` slots used, the table has room
// for `capacity` pools and is on the heap iff heapTable; the free list is empty.
W void w_pool_alloc(unsigned count, unsigned capacity, unsigned lastUsage, unsigned lastCap, unsigned heapTable, unsigned fm, POut* o) {
  arena.reset(fm);
  PL pl;
  Pool* t = heapTable ? table : pl.*get(T_pre());
  pl.*get(T_pools()) = t; pl.*get(T_count()) = PoolCount(count); pl.*get(T_cap()) = PoolCount(capacity);
  if (count) { Pool& p = t[count - 1]; p.*get(T_pcap()) = SlotCount(lastCap); p.*get(T_pusage()) = SlotCount(lastUsage); p.*get(T_pslots()) = lastCap ? lastSlots : nullptr; }
  auto s = pl.allocSlot(&arena);
  o->ok = bool(s); o->id = s.id(); o->count = pl.*get(T_count()); o->capacity = pl.*get(T_cap());
  Pool* t2 = pl.*get(T_pools());
  o->heap_table = t2 != pl.*get(T_pre());
  if (o->count) { Pool& p = t2[o->count - 1]; o->last_usage = p.*get(T_pusage()); o->last_capacity = p.*get(T_pcap()); }
  o->allocs = arena.calls; o->maxPools = PL::maxPools; o->nullSlot = NULL_SLOT; o->poolCap = ARDUINOJSON_POOL_CAPACITY; o->initial = ARDUINOJSON_INITIAL_POOL_COUNT;
  pl.*get(T_count()) = 0;   // the destructor asserts an empty list
}
// free list: freeSlot then allocSlot return the same slot; getSlot id arithmetic
W void w_pool_free_alloc(unsigned count, unsigned lastUsage, unsigned idx, POut* o) {
  arena.reset(0);
  PL pl; Pool* t = pl.*get(T_pre());
  pl.*get(T_count()) = PoolCount(count); 
  for (unsigned i = 0; i < ARDUINOJSON_INITIAL_POOL_COUNT; i++) { t[i].*get(T_pcap()) = ARDUINOJSON_POOL_CAPACITY; t[i].*get(T_pusage()) = (i + 1 < count) ? ARDUINOJSON_POOL_CAPACITY : SlotCount(lastUsage); t[i].*get(T_pslots()) = lastSlots; }
  SlotId id = SlotId(idx);
  Cell* p = pl.getSlot(id);
  pl.freeSlot(Slot<Cell>(p, id));
  auto s = pl.allocSlot(&arena);
  o->ok = bool(s) && s.ptr() == p; o->id = s.id(); o->allocs = arena.calls; o->count = pl.*get(T_count());
  o->last_usage = unsigned(p - lastSlots);
  pl.*get(T_count()) = 0;
}
// StringNode::create / sizeForLength with a symbolic length over all of size_t (C19/C06)
W unsigned w_strnode_create(size_t len, size_t* requested, size_t* stored) {
  arena.reset(0); *requested = 0; *stored = 0;
  StringNode* n = StringNode::create(len, &arena);
  *requested = arena.max_request;
  if (n) *stored = n->length;
  return n != nullptr;
}
W size_t w_strnode_maxlen(void) { return StringNode::maxLength; }
W size_t w_strnode_overhead(void) { return sizeofString(0); }
// StringNode::resize: on failure (too long / allocator) the old node must be released; on success length updated
W unsigned w_strnode_resize(size_t oldlen, size_t newlen, unsigned fm, size_t* stored, unsigned* frees) {
  arena.reset(0); StringNode* n = StringNode::create(oldlen, &arena); if (!n) { *frees = 99; return 2; }
  arena.failmask = fm << 1; unsigned f0 = arena.n_free;
  StringNode* m = StringNode::resize(n, newlen, &arena);
  *frees = arena.n_free - f0; *stored = m ? m->length : 0; return m != nullptr;
}
W unsigned w_refs_width(void) { return unsigned(sizeof(StringNode::references_type)); }
W unsigned w_slotid_width(void) { return unsigned(sizeof(SlotId)); }
// MemoryPoolList::clear from a state with `count` pools and a table of `capacity` entries (inline or heap)
W void w_pool_clear(unsigned count, unsigned capacity, unsigned heapTable, unsigned freeList, POut* o) {
  arena.reset(0);
  PL pl; Pool* t = heapTable ? table : pl.*get(T_pre());
  pl.*get(T_pools()) = t; pl.*get(T_count()) = PoolCount(count); pl.*get(T_cap()) = PoolCount(capacity); pl.*get(T_free()) = SlotId(freeList);
  for (unsigned i = 0; i < TABLE && i < count; i++) { t[i].*get(T_pcap()) = 0; t[i].*get(T_pusage()) = 0; t[i].*get(T_pslots()) = nullptr; }
  pl.clear(&arena);
  o->count = pl.*get(T_count()); o->capacity = pl.*get(T_cap()); o->heap_table = (pl.*get(T_pools())) != (pl.*get(T_pre())); o->id = pl.*get(T_free());
  o->allocs = arena.n_free; o->nullSlot = NULL_SLOT; o->initial = ARDUINOJSON_INITIAL_POOL_COUNT; o->maxPools = PL::maxPools;
}
// swap of two lists: every field of the state is exchanged (inline tables)
W void w_pool_swap(unsigned ca, unsigned fa, unsigned cb, unsigned fb, POut* oa, POut* ob) {
  PL a, b; a.*get(T_count()) = PoolCount(ca); a.*get(T_free()) = SlotId(fa); b.*get(T_count()) = PoolCount(cb); b.*get(T_free()) = SlotId(fb);
  for (unsigned i = 0; i < ARDUINOJSON_INITIAL_POOL_COUNT; i++) { (a.*get(T_pre()))[i].*get(T_pusage()) = SlotCount(10 + i); (b.*get(T_pre()))[i].*get(T_pusage()) = SlotCount(20 + i); (a.*get(T_pre()))[i].*get(T_pslots()) = nullptr; (b.*get(T_pre()))[i].*get(T_pslots()) = nullptr; }
  swap(a, b);
  oa->count = a.*get(T_count()); oa->id = a.*get(T_free()); oa->last_usage = (a.*get(T_pre()))[0].*get(T_pusage()); oa->heap_table = (a.*get(T_pools())) != (a.*get(T_pre()));
  ob->count = b.*get(T_count()); ob->id = b.*get(T_free()); ob->last_usage = (b.*get(T_pre()))[0].*get(T_pusage()); ob->heap_table = (b.*get(T_pools())) != (b.*get(T_pre()));
  a.*get(T_count()) = 0; b.*get(T_count()) = 0;
}
// shrinkToFit from any table state: the table capacity recorded afterwards is the size of the block that is kept
W void w_pool_shrink(unsigned count, unsigned capacity, unsigned heapTable, unsigned lastUsage, POut* o) {
  arena.reset(0);
  PL pl; Pool* t = heapTable ? table : pl.*get(T_pre());
  pl.*get(T_pools()) = t; pl.*get(T_count()) = PoolCount(count); pl.*get(T_cap()) = PoolCount(capacity);
  for (unsigned i = 0; i < TABLE && i < count; i++) { t[i].*get(T_pcap()) = ARDUINOJSON_POOL_CAPACITY; t[i].*get(T_pusage()) = (i + 1 < count) ? ARDUINOJSON_POOL_CAPACITY : SlotCount(lastUsage); t[i].*get(T_pslots()) = lastSlots; }
  pl.shrinkToFit(&arena);
  o->count = pl.*get(T_count()); o->capacity = pl.*get(T_cap()); Pool* t2 = pl.*get(T_pools()); o->heap_table = t2 != pl.*get(T_pre());
  if (o->count) { Pool& p = t2[o->count - 1]; o->last_usage = p.*get(T_pusage()); o->last_capacity = p.*get(T_pcap()); }
  o->allocs = arena.calls; o->max_request = unsigned(arena.max_request); o->id = unsigned(sizeof(Pool));
  pl.*get(T_count()) = 0;
}
