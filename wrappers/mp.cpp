// MessagePack serializer kernels (C08/C07): visit() overloads with a header-capturing counting writer
#include "common.hpp"
struct HdrWriter {   // keeps the first 16 bytes, counts everything; O(1) per call
  uint8_t* hdr; size_t* total;
  size_t write(uint8_t c) { if (*total < 16) hdr[*total] = c; (*total)++; return 1; }
  size_t write(const uint8_t* s, size_t n) { for (size_t i = 0; i < 16 && i < n; i++) if (*total + i < 16) hdr[*total + i] = s[i]; *total += n; return n; }
};
using MS = MsgPackSerializer<HdrWriter>;
#define SER(expr) size_t total = 0; HdrWriter w{hdr, &total}; MS s(w, nullptr); size_t r = s.visit(expr); *ptotal = total; return r;
W size_t w_mp_uint(uint64_t v, uint8_t* hdr, size_t* ptotal) { SER(JsonUInt(v)) }
W size_t w_mp_int(int64_t v, uint8_t* hdr, size_t* ptotal) { SER(JsonInteger(v)) }
W size_t w_mp_f32(float v, uint8_t* hdr, size_t* ptotal) { SER(v) }
W size_t w_mp_f64(double v, uint8_t* hdr, size_t* ptotal) { SER(v) }
W size_t w_mp_bool(bool v, uint8_t* hdr, size_t* ptotal) { SER(v) }
W size_t w_mp_null(uint8_t* hdr, size_t* ptotal) { SER(nullptr) }
W size_t w_mp_str(const char* p, size_t n, uint8_t* hdr, size_t* ptotal) { SER(JsonString(p, n)) }
W size_t w_mp_raw(const char* p, size_t n, uint8_t* hdr, size_t* ptotal) { SER(RawString(p, n)) }
// container headers: CollectionData::size is cut and returns a symbolic count; the lists are empty
W size_t w_mp_array_hdr(uint8_t* hdr, size_t* ptotal) { ArrayData a; SER(a) }
W size_t w_mp_object_hdr(uint8_t* hdr, size_t* ptotal) { ObjectData o; SER(o) }
