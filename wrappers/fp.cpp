// decomposeFloat (the digit extraction behind writeFloat) with the power-of-ten normalisation cut
#include "common.hpp"
static Arena arena;
W void w_decomp(double x, int places, uint32_t* out) {
  FloatParts p = decomposeFloat(x, (int8_t)places);
  out[0] = p.integral; out[1] = p.decimal; out[2] = (uint32_t)(int32_t)p.exponent; out[3] = (uint32_t)(int32_t)p.decimalPlaces;
}
// doc.set(x) then serializeJson: which digits reach the writer (writeInteger<uint32_t> / writeDecimals are cut; they are
// decided for all values by wi_u32 / wdec_w*)
W size_t w_ser_f64(double x, char* out, size_t cap) { arena.reset(); JsonDocument doc(&arena); doc.set(x); return serializeJson(doc, out, cap); }
W size_t w_ser_f32(float x, char* out, size_t cap) { arena.reset(); JsonDocument doc(&arena); doc.set(x); return serializeJson(doc, out, cap); }
