// decomposeFloat (the digit extraction behind writeFloat) with the power-of-ten normalisation cut
#include "common.hpp"
W void w_decomp(double x, int places, uint32_t* out) {
  FloatParts p = decomposeFloat(x, (int8_t)places);
  out[0] = p.integral; out[1] = p.decimal; out[2] = (uint32_t)(int32_t)p.exponent; out[3] = (uint32_t)(int32_t)p.decimalPlaces;
}
