#include <ArduinoJson.h>
#include <cstdio>
int main(){ JsonDocument doc; auto e = deserializeJson(doc, "{\"a\":1,\"a\\u0000b\":2}"); char buf[64]; serializeJson(doc, buf, sizeof buf);
  printf("%s -> %s size=%zu\n", e.c_str(), buf, doc.size()); return doc.size() == 2 && doc["a"] == 1 ? 0 : 1; }
