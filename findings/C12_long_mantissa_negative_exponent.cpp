#include <ArduinoJson.h>
#include <cstdio>
int main(){ JsonDocument doc; deserializeJson(doc, "[1000000000000000000000000e-320,1e-320,1e-400,123456789012345678901234567890e-340]");
  double a = doc[0], b = doc[1], c = doc[2], d = doc[3]; printf("%g %g %g %g\n", a, b, c, d); return (a > 0.9e-296 && a < 1.1e-296) ? 0 : 1; }
