#include <ArduinoJson.h>
#include <cstdio>
int main(){
  const char* ins[] = {"\"\\u00:0\"", "\"\\u00`1\"", "\"\\u004?\"", "\"\\u00@0\"", "\"\\u00G0\"", "\"\\u0041\""};
  for (auto s : ins) { JsonDocument doc; auto e = deserializeJson(doc, s); printf("%-12s -> %s", s, e.c_str()); if (!e) { JsonString v = doc.as<JsonString>(); printf("  bytes:"); for (size_t i=0;i<v.size();i++) printf(" %02x", (unsigned char)v.c_str()[i]); } printf("\n"); }
}
