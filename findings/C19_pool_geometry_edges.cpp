#include <ArduinoJson.h>
#include <cstdio>
int main(){ JsonDocument doc; int ok = 0; for (int i = 0; i < 400; i++) { if (doc.add(i)) ok++; else break; }
  int cnt = 0; bool good = true; for (JsonVariant v : doc.as<JsonArray>()) { if (v.as<int>() != cnt) good = false; if (++cnt > 1000) break; }
  printf("added %d, size %zu, iterated %d, values %s, overflowed %d\n", ok, doc.size(), cnt, good ? "intact" : "CORRUPT", doc.overflowed()); return (ok == 255 && cnt == 255 && good) ? 0 : 1; }
