#include <ArduinoJson.h>
#include <cstdio>
int main(){ JsonDocument doc; doc.set("1.5"); double d = doc.as<double>(); printf("as<double>(linked \"1.5\") = %g\n", d); return d == 1.5 ? 0 : 1; }
