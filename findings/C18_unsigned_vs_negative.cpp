#include <ArduinoJson.h>
#include <cstdio>
int main(){
  JsonDocument doc; doc.set(5u);
  JsonVariant v = doc.as<JsonVariant>();
  printf("5u < -1 : %d   5u > -1: %d  5u == -1: %d\n", v < -1, v > -1, v == -1);
  printf("-1 > 5u : %d\n", -1 > v);
  JsonDocument d2; d2.set(-1);
  printf("var(5u) < var(-1): %d\n", v < d2.as<JsonVariant>());
  doc.set(-3);
  printf("var(-3) < 2ull : %d, var(-3) > 2ull: %d\n", v < 2ull, v > 2ull);
  printf("var(-3) < (unsigned short)2 : %d\n", v < (unsigned short)2);
  doc.set(18446744073709551615ull);
  printf("var(u64max) == -1 : %d\n", v == -1);
}
