#include <ArduinoJson.h>
#include <cstdio>
int main(){ JsonDocument filter; filter["*"] = true; JsonDocument doc;
  auto e = deserializeMsgPack(doc, "\x91\x01", 2, DeserializationOption::Filter(filter)); printf("msgpack [1] with filter {\"*\":true}: %s\n", e.c_str());
  char buf[64]; serializeJson(doc, buf, sizeof buf); printf("result: %s\n", buf);
  return 0; }
