#include <ArduinoJson.h>
#include <cstdio>
int main(){ JsonDocument a, b; a.set(serialized("ab")); b.set(serialized("abc"));
  bool eq = a.as<JsonVariant>() == b.as<JsonVariant>(); printf("serialized(ab)==serialized(abc): %d\n", eq); return eq; }
