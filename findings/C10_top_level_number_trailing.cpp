#include <ArduinoJson.h>
#include <cstdio>
int main(){
  const char* ins[] = {"42 ", "42\n", "42", " 42", "1.5 x", "[42] x", "true x", "42x", "42]", "\"a\" x", "42\t", "-1 \n"};
  for (auto s : ins) { JsonDocument doc; auto e = deserializeJson(doc, s); printf("[%s] -> %s\n", s, e.c_str()); }
}
