#include <ArduinoJson.h>
#include <cstdio>
int main(){ JsonDocument doc; int ok = 0; for (int i = 0; i < 400; i++) { if (doc.add(i)) ok++; else break; }
  size_t n = doc.size(); printf("added %d, size %zu, overflowed %d\n", ok, n, doc.overflowed());
  long long sum = 0; int cnt = 0; for (JsonVariant v : doc.as<JsonArray>()) { sum += v.as<int>(); if (++cnt > 1000) break; }
  printf("iterated %d elements, first=%d\n", cnt, doc[0].as<int>()); return (ok <= 255 && (size_t)ok == n && cnt == ok) ? 0 : 1; }
