// known finding C12 (obligation ser_f64_floatrep): a double that is exactly representable as float is stored as float and
// printed with float precision.  g++ -std=c++17 -I/repo/src findings/C12_double_as_float.cpp && ./a.out  (exit 1 = defect present)
#include <ArduinoJson.h>
#include <stdio.h>
#include <stdlib.h>
#include <math.h>
int main() {
  double vals[] = {1048576.125, 1000000.5, 123456.75, 1582520.125};
  int bad = 0;
  for (double v : vals) {
    JsonDocument d; d.set(v); char b[64]; serializeJson(d, b);
    double back = strtod(b, 0); double err = fabs(back - v), tol = 1e-9 * fmax(1.0, fabs(v));
    printf("%.17g -> %s  error %.3g  allowed %.3g  %s\n", v, b, err, tol, err <= tol ? "ok" : "TOO COARSE"); if (err > tol) bad = 1;
  }
  return bad;
}
