#!/usr/bin/env python3
"""usage: seed_record.py <eval-log>...   [--note id=text ...]
Reads the result lines of tools/seed_eval.sh ("<id> -> Cxx:rc=1:viol=2[ob:violation ...] ...") and records, in
seeded/<id>/meta.json, which obligations reported the change (later lines for the same id override earlier ones)."""
import sys, re, json, os
ROOT = os.path.dirname(os.path.dirname(os.path.abspath(__file__)))
notes = {}; res = {}
KF = set(re.findall(r'^known: property=\S+ obligation=(\S+)', open(os.path.join(ROOT, 'known_findings.txt')).read(), re.M))   # expected to fail: not a detection
for a in sys.argv[1:]:
    if a.startswith('--note='):
        k, v = a[7:].split('=', 1); notes[k] = v; continue
    for line in open(a, errors='replace'):
        m = re.match(r'^(\S+) ->(.*)$', line.strip())
        if not m: continue
        sid, rest = m.group(1), m.group(2)
        props = re.findall(r'(C\d\d):rc=(\d+):viol=(\d+)\[([^\]]*)\]', rest)
        res.setdefault(sid, {})
        for p, rc, nv, obs in props:
            res[sid][p] = dict(rc=int(rc), obs=sorted({o.split(':')[0] for o in obs.split() if o.split(':')[1].startswith('violation') and o.split(':')[0] not in KF}), tool=sorted({o.split(':')[0] for o in obs.split() if o.split(':')[1] == 'tool-error'}))
for sid, pr in sorted(res.items()):
    f = os.path.join(ROOT, 'seeded', sid, 'meta.json')
    if not os.path.exists(f): print('no meta for', sid); continue
    m = json.load(open(f))
    det = sorted({o for p in pr.values() for o in p['obs']})
    m['detected_by'] = ', '.join(det) if det else None
    m['detected_under'] = {p: v['obs'] for p, v in pr.items()}
    if not det: m['missed_because'] = notes.get(sid, m.get('missed_because', 'see DESIGN.md section 5'))
    else: m.pop('missed_because', None)
    if sid in notes and det: m['note'] = notes[sid]
    m['checked_with'] = 'tools/seed_eval.sh %s %s  (scratch worktree of /repo HEAD + patch, VERIF_REPO=<worktree> ./check <property>)' % (sid, ' '.join(pr))
    json.dump(m, open(f, 'w'), indent=1)
    print(sid, 'DETECTED' if det else 'MISSED', ' '.join('%s:%d' % (p, len(v['obs'])) for p, v in pr.items()))
