#!/usr/bin/env python3
import json, sys, glob, jsonschema
jsonschema.validate(json.load(open('/verif/MANIFEST.json')), json.load(open('/root/.vp/MANIFEST.schema.json')))
m = json.load(open('/verif/MANIFEST.json'))
for c in m['checks']:
    jsonschema.validate(json.load(open('/verif/' + c['evidence_file'])), json.load(open('/root/.vp/EVIDENCE.schema.json')))
print('schemas ok: manifest +', len(m['checks']), 'evidence files')
