#!/bin/bash
# usage: seed_eval.sh <seed-id> <prop> [more props...]
# Runs the checks against a scratch worktree of /repo HEAD with seeded/<id>/patch.diff applied (VERIF_REPO points the
# engine at it), so that /repo itself stays untouched while other checks run. Equivalent to:
#   git -C /repo apply seeded/<id>/patch.diff; ./check <prop>; git -C /repo checkout -- .
id=$1; shift
wt=/tmp/se_$id
rm -rf $wt; git -C /repo worktree prune; git -C /repo worktree add -q --detach $wt HEAD || exit 2
git -C $wt apply /verif/seeded/$id/patch.diff || { echo "$id: patch failed"; git -C /repo worktree remove --force $wt; exit 2; }
cd /verif; res=""
for p in "$@"; do
  out=$(VERIF_REPO=$wt ./check $p --no-evidence ${ONLY:+--only "$ONLY"} 2>&1); rc=$?
  v=$(echo "$out" | grep -c "^VIOLATION")
  failing=$(echo "$out" | grep -E " (violation|violation-unreplayed|tool-error) " | awk '{print $3":"$4}' | tr '\n' ' ')
  res="$res $p:rc=$rc:viol=$v[$failing]"
done
git -C /repo worktree remove --force $wt
echo "$id ->$res"
