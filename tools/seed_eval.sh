#!/bin/bash
# usage: seed_eval.sh <seed-id> <prop> [more props...]   -- applies seeded/<id>/patch.diff to /repo, runs the checks, reverts
id=$1; shift
cd /verif
git -C /repo diff --quiet || { echo "/repo not clean"; exit 2; }
git -C /repo apply seeded/$id/patch.diff || { echo "$id: patch failed"; exit 2; }
res=""
for p in "$@"; do
  out=$(./check $p --no-evidence 2>&1); rc=$?
  v=$(echo "$out" | grep -c "^VIOLATION")
  failing=$(echo "$out" | grep -E " (violation|violation-unreplayed|tool-error) " | awk '{print $3":"$4}' | tr '\n' ' ')
  res="$res $p:rc=$rc:viol=$v[$failing]"
done
git -C /repo checkout -- .
echo "$id ->$res"
