#!/bin/bash
# usage: tools/run_all.sh <tier> [props...]  -- runs the checks one after the other and prints one summary line each
tier=$1; shift; props=${@:-C01 C02 C03 C04 C05 C06 C07 C08 C09 C10 C11 C12 C13 C14 C15 C16 C17 C18 C19 C20}
for p in $props; do s=$(date +%s); out=$(./check $p --tier $tier ${NOEV:+--no-evidence} 2>&1); rc=$?; e=$(date +%s)
  echo "$p rc=$rc $((e-s))s $(echo "$out" | grep -E "^\[.*\] C[0-9]+: " | tail -1 | cut -c12-160)"; echo "$out" | grep -E "UNDECIDED|TOOL-ERROR|^VIOLATION|KNOWN-FINDING" | cut -c1-300; done
