#!/usr/bin/env python3
"""Regenerates MANIFEST.json from the table below (single source of truth for what is claimed)."""
import json, os
ROOT = os.path.dirname(os.path.dirname(os.path.abspath(__file__)))
TECH = 'bounded symbolic execution of the real code: clang-14 LLVM IR of wrapper TUs over /repo/src -> typed C (own translator) -> CBMC 6.11 SAT/SMT verdict over all inputs within the stated bound; witness twin, native differential validation, native replay of counterexamples'
CLAIMS = {}   # id -> dict(text=, note=, design=)
def claim(i, text, note, design=None): CLAIMS[i] = dict(text=text, note=note, design=design or '2 / ' + i)
NA = {}
def na(i, reason): NA[i] = reason

exec(open(os.path.join(ROOT, 'tools', 'claims.py')).read())

ids = ['C%02d' % i for i in range(1, 21)]
checks = []
for i in ids:
    if i in CLAIMS:
        c = CLAIMS[i]
        checks.append(dict(property_id=i, quick_cmd='./check %s --tier quick' % i, thorough_cmd='./check %s --tier thorough' % i,
            evidence_file='evidence/%s.json' % i, replay_cmd_template='./check --replay {path}', engine='cbmc-ir',
            level_claimed=dict(category=c.get('category', 'model_checking'), text=c['text'], design_ref='DESIGN.md section ' + c['design']),
            level_note=c['note'], technique=c.get('technique', TECH)))
m = dict(version=1, setup_cmd='true',
    hooks=dict(guard='BBLANCHON_ARDUINOJSON_VERIF', enable='no hook commits: private members are reached from the wrapper TUs (wrappers/*.cpp) with the explicit-instantiation access idiom; checks compile /repo/src headers unmodified', baseline_off_cmd='cmake --build /repo/_build && ctest --test-dir /repo/_build -j8 --timeout 900', source_commits=[], add_only=True),
    engines=[dict(name='cbmc-ir', path='engine/', serves_properties=sorted(CLAIMS), kind_free_text='clang-14 LLVM IR -> typed C translator (engine/irparse.py, engine/irtyped.py) + CBMC 6.11 driver (engine/vfw.py, ./check)')],
    checks=checks,
    notes='Every check regenerates IR, C and goto programs from /repo working tree on each run. Exit 0 = all registered obligations discharged or undecided-with-note; exit 1 = VIOLATION (counterexample replayed natively against the real code); exit 2 = tool error (never a VIOLATION line).',
    not_applicable=[dict(property_id=i, reason=NA.get(i, 'check not built yet (work in progress)')) for i in ids if i not in CLAIMS])
json.dump(m, open(os.path.join(ROOT, 'MANIFEST.json'), 'w'), indent=1)
print('claimed:', sorted(CLAIMS), 'n/a:', [i for i in ids if i not in CLAIMS])
