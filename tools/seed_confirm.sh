#!/bin/bash
# usage: seed_confirm.sh <src-dir-with-patch.diff+demo.cpp> <id> <property>
# Confirms a seeded change in a scratch worktree: applies cleanly, demo passes without / fails with it, full test suite passes with it.
set -u
src=$1; id=$2; prop=$3
wt=/tmp/sc_$id
rm -rf $wt; git -C /repo worktree prune; git -C /repo worktree add -q --detach $wt HEAD || exit 2
res=/verif/seeded/$id; mkdir -p $res
cp $src/patch.diff $src/demo.cpp $res/ 2>/dev/null; cp $src/notes.txt $res/notes.txt 2>/dev/null
cd $wt
g++ -std=c++17 -pthread -I$wt/src $res/demo.cpp -o /tmp/sc_${id}_orig 2>/tmp/sc_${id}_orig.err; /tmp/sc_${id}_orig >/dev/null 2>&1; orig_rc=$?
if ! git apply --check $res/patch.diff 2>/dev/null; then echo "$id: patch does not apply on current HEAD"; applies=0; else applies=1; git apply $res/patch.diff; fi
mut_rc=-1; suite="not run"
if [ $applies = 1 ]; then
  g++ -std=c++17 -pthread -I$wt/src $res/demo.cpp -o /tmp/sc_${id}_mut 2>/tmp/sc_${id}_mut.err; /tmp/sc_${id}_mut >/dev/null 2>&1; mut_rc=$?
  cmake -S $wt -B $wt/_b -G Ninja -DCMAKE_BUILD_TYPE=Debug >/dev/null 2>&1 && cmake --build $wt/_b >/tmp/sc_${id}_build.log 2>&1 && suite=$(ctest --test-dir $wt/_b -j8 --timeout 900 2>&1 | grep -E "tests passed|tests failed" | head -1)
fi
python3 - "$id" "$prop" "$applies" "$orig_rc" "$mut_rc" "$suite" <<'PY'
import json,sys,os
id,prop,applies,orc,mrc,suite=sys.argv[1:7]
p='/verif/seeded/%s/meta.json'%id
notes=open('/verif/seeded/%s/notes.txt'%id).read() if os.path.exists('/verif/seeded/%s/notes.txt'%id) else ''
json.dump(dict(id=id, breaks_property=prop, needs_to_manifest=notes.strip(), confirmed=dict(patch_applies=applies=='1', demo_exit_on_original=int(orc), demo_exit_with_change=int(mrc), test_suite_with_change=suite,
   how='tools/seed_confirm.sh: scratch worktree of /repo HEAD, g++ -std=c++17 demo.cpp with and without patch.diff, full cmake/ctest suite with the patch'), detected_by=None), open(p,'w'), indent=1)
print(id, 'applies', applies, 'demo orig rc', orc, 'mut rc', mrc, 'suite:', suite)
PY
cd /; git -C /repo worktree remove --force $wt; rm -f /tmp/sc_${id}_orig /tmp/sc_${id}_mut
