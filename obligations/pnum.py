from vfw import Unit, Ob
UNITS = [Unit('numcut', 'wrappers/num.cpp', cuts={'CUT_MF_F': r'10make_floatIfiE', 'CUT_MF_D': r'10make_floatIdiE'})]
OBS = []
for ln, tier in [(1, 'quick'), (2, 'quick'), (19, 'thorough'), (20, 'quick'), (21, 'thorough'), (3, 'thorough'), (10, 'thorough'), (18, 'thorough'), (22, 'thorough'), (24, 'thorough')]:
    for neg in (0, 1):
        OBS.append(Ob(['C12', 'C01', 'C07'], 'pnum_int_len%d_%s' % (ln, 'neg' if neg else 'pos'), 'numcut', 'harness/pnum.c', 'h_pnum_int', defs=['LEN=%d' % ln, 'NEG=%d' % neg],
                      unwind=ln + 3, backend='kissat', tier=tier, cap=400, hunwind=40,
                      desc='parseNumber on every %s digit string of length %d: exact integer on [-2^63,2^64), else floating kind of the right magnitude' % ('negative' if neg else 'non-negative', ln),
                      bound='all 10^%d digit strings (leading zeros are digits)' % ln))
OBS.append(Ob(['C12', 'C10', 'C01', 'C13', 'C07'], 'pnum_scan_n5', 'numcut', 'harness/pnum.c', 'h_pnum_scan', defs=['NB=5'], unwind=8, cap=400, hunwind=12,
              desc='parseNumber on every string of 5 bytes: grammar, exact (mantissa, exponent), float-vs-double decision, overflow shortcut', bound='all 2^40 5-byte strings (NUL anywhere)'))
OBS.append(Ob(['C12'], 'pnum_8digits', 'numcut', 'harness/pnum.c', 'h_pnum_8digits', unwind=12, cap=300, hunwind=12,
              desc='literals D.DDDDDDD (8 significant digits): exact (mantissa, exponent) and double-precision path', bound='all 9*10^7 such literals'))
OBS.append(Ob(['C12'], 'pnum_long_negexp', 'numcut', 'harness/pnum_big.c', 'h_pnum_long_negexp', unwind=30, cap=600, hunwind=30,
              desc='25-digit mantissa with exponent e-DDD: the zero shortcut only below the double range; scaled pair of the right magnitude', bound='all such literals (10^28)'))
for nz in (154,):
    OBS.append(Ob(['C12', 'C13'], 'pnum_many_digits_%d' % (nz + 1), 'numcut', 'harness/pnum_big.c', 'h_pnum_many_digits', defs=['NZ=%d' % nz], unwind=nz + 12, cap=600, hunwind=nz + 12, validate=2,
              desc="literal '1' + %d zeros + e-DD: scaled pair of the right magnitude (the count of dropped digits does not wrap)" % nz, bound='all 100 exponents; the %d-digit mantissa is concrete' % (nz + 1)))

# ---- NaN / Infinity configuration: same scanner obligation on a unit built with ARDUINOJSON_ENABLE_NAN=1, ARDUINOJSON_ENABLE_INFINITY=1
UNITS.append(Unit('numcut_nan', 'wrappers/num.cpp', defs=['ARDUINOJSON_ENABLE_NAN=1', 'ARDUINOJSON_ENABLE_INFINITY=1'], cuts={'CUT_MF_F': r'10make_floatIfiE', 'CUT_MF_D': r'10make_floatIdiE'}))
OBS.append(Ob(['C10', 'C12'], 'pnum_scan_n5_naninf', 'numcut_nan', 'harness/pnum.c', 'h_pnum_scan', defs=['NB=5', 'NANINF=1', 'UNIT_H="numcut_nan.h"'], unwind=8, cap=600, hunwind=12,
              desc='parseNumber in the NaN+Infinity build on every string of 5 bytes: sign? n/N.. is NaN, sign? i/I.. is the signed infinity, every other string exactly as in the default build (grammar, exact mantissa/exponent, overflow shortcut)', bound='all 2^40 5-byte strings (NUL anywhere)'))
