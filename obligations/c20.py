from vfw import Unit, Ob
UNITS = [Unit('num_hook', 'wrappers/num.cpp', cuts={'CUT_MF_F': r'10make_floatIfiE', 'CUT_MF_D': r'10make_floatIdiE'}, memhook=True)]
OBS = [Ob(['C20'], 'frame_kernels', 'num_hook', 'harness/frame.c', 'h_frame_kernels', defs=['UNIT_H="num_hook.h"'], unwind=24, cap=400, hunwind=12, validate=2,
          desc='store hook on every store of the translated text-formatter / number / UTF / escape / compare / error-string kernels: no store targets a mutable global object',
          bound='all symbolic inputs of the listed kernels (64-bit integers, 5-byte strings, code units, bytes); loops unwound 24')]
META = {'C20': dict(level='model_checking', assumptions=['malloc/free of the default allocator are thread-safe (outside the library)',
        'reduction: operations that neither write outside {own document, caller buffers, stack} nor read mutable memory outside them commute, so any interleaving equals a sequential run'],
        not_claimed=['real interleavings: CBMC 6.11 aborts with "pointer handling for concurrency is unsound" on any kernel that dereferences a pointer to a global table (escape table, error strings), so two-thread harnesses are not applicable; the frame property is decided instead',
                     'reads of mutable globals (only stores are hooked)', 'a document shared read-only between threads'])}
