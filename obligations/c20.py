from vfw import Unit, Ob
UNITS = [Unit('num_hook', 'wrappers/num.cpp', cuts={'CUT_MF_F': r'10make_floatIfiE', 'CUT_MF_D': r'10make_floatIdiE'}, memhook=True)]
DOC = ['ARENA_N=6', 'ARENA_CHUNK=64', 'ARDUINOJSON_POOL_CAPACITY=4', 'ARDUINOJSON_INITIAL_POOL_COUNT=2']
UNITS += [Unit('doc_hook', 'wrappers/doc.cpp', defs=DOC, cuts={'CUT_MF_F': r'10make_floatIfiE', 'CUT_MF_D': r'10make_floatIdiE', 'CUT_DECOMP': r'14decomposeFloatEda'}, memhook=True, memhook_allow=r'^_ZL5arena$')]
OBS = [Ob(['C20'], 'frame_kernels', 'num_hook', 'harness/frame.c', 'h_frame_kernels', defs=['UNIT_H="num_hook.h"'], unwind=24, cap=400, hunwind=12, validate=2,
          desc='store hook on every store of the translated text-formatter / number / UTF / escape / compare / error-string kernels: no store targets a mutable global object',
          bound='all symbolic inputs of the listed kernels (64-bit integers, 5-byte strings, code units, bytes); loops unwound 24')]
UNITS += [Unit('jd_hook', 'wrappers/jd.cpp', defs=['ARENA_N=2', 'ARENA_CHUNK=48'], memhook=True, memhook_allow=r'^_ZL6?f?arena$|^_ZL5arena$'),
          Unit('mpd_hook', 'wrappers/mpd.cpp', defs=['ARENA_N=3', 'ARENA_CHUNK=64', 'ARDUINOJSON_POOL_CAPACITY=4', 'ARDUINOJSON_INITIAL_POOL_COUNT=2'],
               cuts={'CUT_RA': r'MsgPackDeserializerI7VReaderE9readArrayINS1_14AllowAllFilterE', 'CUT_RO': r'MsgPackDeserializerI7VReaderE10readObjectINS1_14AllowAllFilterE'}, memhook=True, memhook_allow=r'^_ZL6farena$|^_ZL5arena$')]
OBS += [
 Ob(['C20'], 'frame_json_strings', 'jd_hook', 'harness/jd_str.c', 'h_pqs', defs=['UNIT_H="jd_hook.h"', 'NB=7', 'PREFIX_U=1'], unwind=10, lunwind=[(r'parseQuotedString.*\.1$', 11)], fs='none', cap=400, hunwind=36, validate=2, witness=False,
    desc='store hook while a JSON string with \\u escapes (surrogates included) is scanned: no store into a global (e.g. a static code-point accumulator)', bound='as pqs_u6'),
 Ob(['C20'], 'frame_json_leafs', 'jd_hook', 'harness/jd_leaf.c', 'h_keyword', defs=['UNIT_H="jd_hook.h"', 'NB=6'], unwind=8, fs='none', cap=200, hunwind=24, validate=2, witness=False, desc='store hook on keyword scanning', bound='as keyword'),
 Ob(['C20'], 'frame_msgpack_ints', 'mpd_hook', 'harness/mpd.c', 'h_md_variant', defs=['UNIT_H="mpd_hook.h"', 'NB=9', 'FAMILY=1'], unwind=12, fs='none', cap=900, hunwind=20, validate=2, witness=False,
    desc='store hook while MessagePack integers of every width are decoded: no store into a global (e.g. a static scratch buffer)', bound='as md_variant_ints'),
 Ob(['C20'], 'frame_msgpack_floats_str', 'mpd_hook', 'harness/mpd.c', 'h_md_variant', defs=['UNIT_H="mpd_hook.h"', 'NB=8', 'FAMILY=3'], unwind=11, fs='none', cap=400, hunwind=20, validate=2, witness=False,
    desc='store hook while MessagePack strings are decoded', bound='as md_variant_str'),
]
KH = dict(fs=4096, cap=400, hunwind=44, objbits=12, validate=2, witness=False)   # same harness entries as the witnessed obligations ser_arr / hist_* / one_i64
OBS += [
 Ob(['C20'], 'frame_doc_build_serialize', 'doc_hook', 'harness/doc_ser.c', 'h_ser_arr', defs=['UNIT_H="doc_hook.h"'], unwind=14, desc='store hook while a document [i,"s",u] is built and serialized: every store of the library lands in the document memory (arena), the caller buffer or the stack, never in a global', bound='as ser_arr', **KH),
 Ob(['C20'], 'frame_doc_history', 'doc_hook', 'harness/doc_hist.c', 'h_add_remove_add', defs=['UNIT_H="doc_hook.h"', 'R=1'], unwind=8, desc='store hook during add/add/add/remove/add on a document', bound='as hist_add_remove_add_r1', **KH),
 Ob(['C20'], 'frame_doc_scalar64', 'doc_hook', 'harness/doc_one.c', 'h_one_i64', defs=['UNIT_H="doc_hook.h"'], unwind=6, desc='store hook during doc.set(int64) and all is<T>/as<T> reads', bound='all int64 values', **KH),
]
META = {'C20': dict(level='model_checking', assumptions=['malloc/free of the default allocator are thread-safe (outside the library)',
        'reduction: operations that neither write outside {own document, caller buffers, stack} nor read mutable memory outside them commute, so any interleaving equals a sequential run'],
        not_claimed=['real interleavings: CBMC 6.11 aborts with "pointer handling for concurrency is unsound" on any kernel that dereferences a pointer to a global table (escape table, error strings), so two-thread harnesses are not applicable; the frame property is decided instead',
                     'reads of mutable globals (only stores are hooked)', 'a document shared read-only between threads'])}
