from vfw import Unit, Ob
UNITS = [Unit('num', 'wrappers/num.cpp')]
INS = ['i32', 'u32', 'i64', 'u64', 'f32', 'f64']
OUTS = ['i8', 'u8', 'i16', 'u16', 'i32', 'u32', 'i64', 'u64', 'f32', 'f64']
OBS = []
for i in INS:
    for o in OUTS:
        OBS.append(Ob('C13', 'cvt_%s_%s' % (i, o), 'num', 'harness/cvt.c', 'h_cvt_%s_%s' % (i, o), unwind=2, cap=60,
                      desc='convertNumber/canConvertNumber %s -> %s equals the exact-range oracle' % (i, o),
                      bound='all 2^%s input values' % ('32' if '32' in i else '64'), validate=6))
for o in ['i8', 'u8', 'i16', 'u16', 'i32', 'u32', 'i64', 'u64', 'f64']:
    OBS.append(Ob(['C13', 'C14'], 'numcvt_' + o, 'num', 'harness/cvt.c', 'h_numcvt_' + o, unwind=2, cap=90, desc='Number::convertTo<%s>() (numeric strings): same rules as stored numbers for every literal kind' % o, bound='all (kind, 64-bit payload) pairs', validate=6))
META = {'C13': dict(level='model_checking', assumptions=[], not_claimed=[])}
