from vfw import Unit, Ob
OBS = [
 Ob(['C18', 'C14'], 'rawcmp_n3', 'num', 'harness/cmpstr.c', 'h_rawcmp', defs=['NS=3'], unwind=6, cap=200, hunwind=8, desc='RawComparer: equal iff identical bytes and length; mirrored when operands swap', bound='all pairs of byte strings of length 0..3'),
 Ob(['C14', 'C18'], 'strcmp_n3', 'num', 'harness/cmpstr.c', 'h_strcmp', defs=['NS=3'], unwind=6, cap=300, hunwind=8, desc='stringCompare/stringEquals for sized, JsonString and zero-terminated adapters; Comparer<JsonString>', bound='all pairs of byte strings of length 0..3 (NUL and high-bit bytes included)'),
]
