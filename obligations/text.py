from vfw import Unit, Ob
UNITS = [Unit('wisign', 'wrappers/wisign.cpp', cuts={
    'CUT_WI_U64': r'TextFormatter.*12writeIntegerImE', 'CUT_WI_U32': r'TextFormatter.*12writeIntegerIjE',
    'CUT_WI_U16': r'TextFormatter.*12writeIntegerItE', 'CUT_WI_U8': r'TextFormatter.*12writeIntegerIhE'})]
OBS = [
 Ob(['C02', 'C12', 'C07'], 'wis_i64', 'wisign', 'harness/wisign.c', 'h_wis_i64', unwind=3, cap=60, desc='writeInteger<int64_t> = optional minus + unsigned digit writer on |v| (digit loop cut, verified by wi_u64)', bound='all 2^64 values'),
 Ob(['C02', 'C12', 'C07'], 'wis_i32', 'wisign', 'harness/wisign.c', 'h_wis_i32', unwind=3, cap=60, desc='writeInteger<int32_t> = optional minus + unsigned digit writer on |v| (cut, verified by wi_u32)', bound='all 2^32 values'),
 Ob(['C02', 'C12'], 'wis_i16', 'wisign', 'harness/wisign.c', 'h_wis_i16', unwind=3, cap=60, desc='writeInteger<int16_t> sign handling', bound='all 2^16 values'),
 Ob(['C02', 'C12'], 'wis_i8', 'wisign', 'harness/wisign.c', 'h_wis_i8', unwind=3, cap=60, desc='writeInteger<int8_t> sign handling', bound='all 256 values'),
 Ob(['C02', 'C12', 'C07'], 'wi_u32', 'num', 'harness/text.c', 'h_wi_u32', unwind=12, backend='cvc5', cap=200, desc='writeInteger<uint32_t>: digits denote the value, canonical, exact count, no stray write', bound='all 2^32 values'),
 Ob(['C02', 'C12'], 'wi_u16', 'num', 'harness/text.c', 'h_wi_u16', unwind=7, cap=100, desc='writeInteger<uint16_t>', bound='all 2^16 values'),
 Ob(['C02', 'C12', 'C07'], 'wi_u64', 'num', 'harness/text.c', 'h_wi_u64', unwind=22, backend='cvc5', tier='thorough', cap=1500, desc='writeInteger<uint64_t>', bound='all 2^64 values'),
 Ob(['C12', 'C02'], 'wdec_w1', 'num', 'harness/text.c', 'h_wdec', defs=['WD=1'], unwind=11, backend='cvc5', cap=200, desc='writeDecimals(value,width): dot + width zero-padded digits of value mod 10^width', bound='all 2^32 values width 1'),
 Ob(['C12', 'C02'], 'wdec_w2', 'num', 'harness/text.c', 'h_wdec', defs=['WD=2'], unwind=11, backend='cvc5', cap=200, desc='writeDecimals(value,width): dot + width zero-padded digits of value mod 10^width', bound='all 2^32 values width 2'),
 Ob(['C12', 'C02'], 'wdec_w3', 'num', 'harness/text.c', 'h_wdec', defs=['WD=3'], unwind=11, backend='cvc5', cap=200, desc='writeDecimals(value,width): dot + width zero-padded digits of value mod 10^width', bound='all 2^32 values width 3'),
 Ob(['C12', 'C02'], 'wdec_w4', 'num', 'harness/text.c', 'h_wdec', defs=['WD=4'], unwind=11, backend='cvc5', cap=200, desc='writeDecimals(value,width): dot + width zero-padded digits of value mod 10^width', bound='all 2^32 values width 4'),
 Ob(['C12', 'C02'], 'wdec_w5', 'num', 'harness/text.c', 'h_wdec', defs=['WD=5'], unwind=11, backend='cvc5', cap=200, desc='writeDecimals(value,width): dot + width zero-padded digits of value mod 10^width', bound='all 2^32 values width 5'),
 Ob(['C12', 'C02'], 'wdec_w6', 'num', 'harness/text.c', 'h_wdec', defs=['WD=6'], unwind=11, backend='cvc5', cap=200, desc='writeDecimals(value,width): dot + width zero-padded digits of value mod 10^width', bound='all 2^32 values width 6'),
 Ob(['C12', 'C02'], 'wdec_w7', 'num', 'harness/text.c', 'h_wdec', defs=['WD=7'], unwind=11, backend='cvc5', cap=200, desc='writeDecimals(value,width): dot + width zero-padded digits of value mod 10^width', bound='all 2^32 values width 7'),
 Ob(['C12', 'C02'], 'wdec_w8', 'num', 'harness/text.c', 'h_wdec', defs=['WD=8'], unwind=11, backend='cvc5', cap=200, desc='writeDecimals(value,width): dot + width zero-padded digits of value mod 10^width', bound='all 2^32 values width 8'),
 Ob(['C12', 'C02'], 'wdec_w9', 'num', 'harness/text.c', 'h_wdec', defs=['WD=9'], unwind=11, backend='cvc5', cap=200, desc='writeDecimals(value,width): dot + width zero-padded digits of value mod 10^width', bound='all 2^32 values width 9'),
 Ob(['C02', 'C17'], 'wchar', 'num', 'harness/text.c', 'h_wchar', unwind=10, cap=60, desc='writeChar rewrites exactly the eight listed bytes', bound='all 256 bytes'),
 Ob(['C07', 'C17', 'C01'], 'escape_tables', 'num', 'harness/text.c', 'h_escape_tables', unwind=12, cap=60, desc='escape/unescape tables are inverse; exactly nine escape letters accepted', bound='all 256 bytes'),
 Ob(['C02', 'C17'], 'wstr_n3', 'num', 'harness/text.c', 'h_wstr_n', defs=['NS=3'], unwind=12, cap=150, desc='writeString(p,n) into a StaticStringWriter of symbolic capacity equals the reference escaper prefix', bound='n<=3 symbolic bytes (all 256 values each), capacity 0..22'),
 Ob(['C02'], 'ssw', 'num', 'harness/text.c', 'h_ssw', unwind=14, cap=100, desc='StaticStringWriter::write(s,n)/write(c): stores min(n,room) bytes, never outside [buf,buf+cap)', bound='n<=6, cap<=8, all byte values'),
 Ob(['C17', 'C01'], 'utf8_cp', 'num', 'harness/text.c', 'h_utf8_cp', unwind=8, cap=60, desc='Utf8::encodeCodepoint equals the reference encoder', bound='all code points 0..0x10FFFF'),
 Ob(['C17', 'C01'], 'utf16_one', 'num', 'harness/text.c', 'h_utf16_one', unwind=8, cap=60, desc='one UTF-16 unit through Codepoint::append + encodeCodepoint', bound='all 2^16 units'),
 Ob(['C17', 'C01'], 'utf16_pair', 'num', 'harness/text.c', 'h_utf16_pair', unwind=8, cap=100, desc='two UTF-16 units: every surrogate pair gives the UTF-8 of the combined code point; every other order is bounded', bound='all 2^32 ordered pairs of units'),
 Ob(['C07', 'C08', 'C09'], 'fix_endian', 'num', 'harness/text.c', 'h_fix_endian', unwind=10, cap=60, desc='fixEndianness reverses 2/4/8 bytes and is an involution', bound='all byte values'),
 Ob(['C15'], 'nesting_counter', 'num', 'harness/text.c', 'h_nesting_counter', unwind=2, cap=60, desc='NestingLimit::reached/decrement', bound='all 256 values'),
]
OBS += [Ob(['C09'], 'd2f', 'num', 'harness/text.c', 'h_d2f', unwind=10, cap=200, hunwind=12, desc='doubleToFloat (USE_DOUBLE=0 reader): sign, NaN, in-range bracketing, +-inf beyond the float range, zero/subnormal below it', bound='all 2^64 double bit patterns')]
