from vfw import Unit, Ob
UNITS = [Unit('filt', 'wrappers/filt.cpp', defs=['ARENA_N=6', 'ARENA_CHUNK=64', 'ARDUINOJSON_POOL_CAPACITY=4', 'ARDUINOJSON_INITIAL_POOL_COUNT=2'],
              cuts={'CUT_COLL_CLEAR?': r'14CollectionData5clearEPNS1_15ResourceManagerE$'})]   # recursive part of VariantData::clear: asserted unreachable while the filter documents are built
NAMES = ['true', 'false', 'null', '1', '{}', '[]', '{"a":true}', '{"a":false}', '{"*":true}', '{"*":true,"a":false}', '{"a":{"b":true}}', '[true]', '[{"a":true}]', '[[true]]', '{"a":null,"*":true}']
HEAVY = set()   # filter documents containing an object: no verdict within the quick budget (symbolic key lookup over the slot heap)
OBS = [Ob(['C11'], 'filter_shape%d' % k, 'filt', 'harness/filt.c', 'h_filter', defs=['SHAPE=%d' % k], unwind=8, fs=4096, objbits=12, cap=(900 if k in HEAVY else 200), tier=('thorough' if k in HEAVY else 'quick'), hunwind=8,
          desc='Filter navigation on the filter document %s equals the projection rule (six navigations x four allow-predicates)' % nm, bound='all 256 values of the one-byte key (empty key included)')
       for k, nm in enumerate(NAMES) if k != 3]   # a numeric filter is unspecified by the property (1 == true in the library)
META = {'C11': dict(level='model_checking', assumptions=[], not_claimed=['equality of whole filtered and unfiltered results for arbitrary (input, filter) pairs (needs whole-parser runs)', 'filters outside the 15-document family', 'memory comparison filtered vs unfiltered'])}
for st, nm in [(1, '{"*":true}'), (0, '{"a":true}')]:
    OBS.append(Ob(['C11', 'C03'], 'filter_obj_%s' % ('star' if st else 'a'), 'filt', 'harness/filt.c', 'h_filter_obj', defs=['STAR=%d' % st], unwind=8, fs=4096, objbits=12, cap=300, hunwind=8,
        desc='Filter navigation on the object filter %s (built with the low-level API): member / wildcard by key; an index selects nothing (consistent with allowArray() == false)' % nm, bound='all 256 values of the one-byte key'))
for ml in (0, 1, 2):
    for ll in (0, 1, 2):
        OBS.append(Ob(['C01', 'C14', 'C04'], 'obj_find_m%d_l%d' % (ml, ll), 'filt', 'harness/filt.c', 'h_obj_find', defs=['MLEN=%d' % ml, 'LLEN=%d' % ll], unwind=8, fs=4096, objbits=12, cap=300, hunwind=8,
            desc='ObjectData::getMember / obj[key] on an object whose only key has %d byte(s), looked up with a key of %d byte(s), sized and zero-terminated: found iff identical (empty key, NUL and prefixes included)' % (ml, ll), bound='all values of the key bytes'))
for yn, wn, kc, sw in [(0, 0, 0, 0), (0, 0, 0, 1), (1, 1, 0, 0), (1, 0, 1, 0), (0, 0, 1, 0), (1, 1, 1, 1), (1, 0, 0, 0)]:
    OBS.append(Ob(['C18'], 'objeq_%d%d%d%d' % (yn, wn, kc, sw), 'filt', 'harness/filt.c', 'h_objeq', defs=['YN=%d' % yn, 'WN=%d' % wn, 'KC=%d' % kc, 'SW=%d' % sw], unwind=8, fs=4096, objbits=12, cap=300, hunwind=8,
        desc='object equality {"a":x,"b":%s} vs {"a":z,"%s":%s}%s: equal iff same keys with equal values; a missing key is not a null member; symmetric; != is the negation' % ('null' if yn else 'y', 'c' if kc else 'b', 'null' if wn else 'w', ' (second object built in the other order)' if sw else ''),
        bound='all byte-sized x,y,z,w; objects built with the low-level API on an arena allocator'))
for rm_ in (1, 2):
    OBS.append(Ob(['C04', 'C06', 'C14'], 'obj_hist_remove%d' % rm_, 'filt', 'harness/filt.c', 'h_obj_hist', defs=['RM=%d' % rm_], unwind=8, fs=4096, objbits=12, cap=300, hunwind=8,
        desc='ObjectData history: add k1:v1, add k2:v2, remove the %s member, add k3:v3 (keys a, b, c): survivor intact and first, new member last, lookups agree, freed slots reused' % ('first' if rm_ == 1 else 'second'),
        bound='all int32 values; low-level object API on an arena allocator'))
