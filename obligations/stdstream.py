from vfw import Unit, Ob
UNITS = [Unit('stdstream', 'wrappers/stdstream.cpp')]
K = dict(unit='stdstream', harness='harness/stdstream.c', unwind=9, cap=100, hunwind=12)
OBS = [
 Ob(['C16', 'C03'], 'istream_readbytes', entry='h_isr_readbytes', desc='Reader<std::istream>::readBytes against a stream model (read blocks until n bytes or end; readsome may deliver less): returns min(n, remaining), takes exactly those bytes, in order, writes nothing else', bound='streams of 0..6 arbitrary bytes, requests 0..6; stream member functions are harness stubs', **K),
 Ob(['C16', 'C03'], 'istream_read', entry='h_isr_read', desc='Reader<std::istream>::read: one byte per call, negative at the end, no read-ahead', bound='streams of 0..2 bytes, two calls', **K),
 Ob(['C02'], 'ostream_writer', entry='h_osw', desc='Writer<std::ostream>: write(c) and write(s,n) put exactly the given bytes whatever the stream width() is, and return their number', bound='all bytes, n 0..6, width 0..3; stream member functions are harness stubs', **K),
]
