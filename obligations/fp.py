from vfw import Unit, Ob
UNITS = [Unit('fp', 'wrappers/fp.cpp', cuts={'CUT_NORM': r'9normalizeIdEE'}, noinline=[r'9normalizeIdEE'])]
OBS = []
DEC = [('1e-5', '1e-4'), ('1e-4', '1e-3'), ('1e-3', '1e-2'), ('1e-2', '1e-1'), ('1e-1', '1.0'), ('1.0', '10.0'), ('10.0', '100.0'), ('100.0', '1e3'), ('1e3', '1e4'), ('1e4', '1e5'), ('1e5', '1e6'), ('1e6', '1e7')]
for pl in (9, 6):
    for lo, hi in DEC:
        OBS.append(Ob(['C12', 'C02'], 'decomp_p%d_%s' % (pl, lo.replace('.', '_').replace('-', 'm')), 'fp', 'harness/fp.c', 'h_decomp', defs=['PLACES=%d' % pl, 'LO=%s' % lo, 'HI=%s' % hi], unwind=12, cap=600, tier='thorough',
            desc='decomposeFloat(x,%d): integral.decimal within %s*max(1,x) of x, digits fit decimalPlaces, no trailing zero' % (pl, '1e-9' if pl == 9 else '1e-6'), bound='all doubles in [%s,%s); normalize() cut (not needed in this range)' % (lo, hi)))
