from vfw import Unit, Ob
UNITS = [Unit('fp', 'wrappers/fp.cpp', defs=['ARENA_N=6', 'ARENA_CHUNK=64', 'ARDUINOJSON_POOL_CAPACITY=4', 'ARDUINOJSON_INITIAL_POOL_COUNT=2'], cuts={'CUT_NORM': r'9normalizeIdEE', 'CUT_WI32': r'TextFormatter.*12writeIntegerIjE', 'CUT_WDEC': r'TextFormatter.*13writeDecimalsEja',
    'CUT_VOBJ': r'JsonSerializer.*5visitERKNS1_10ObjectDataE', 'CUT_VARR': r'JsonSerializer.*5visitERKNS1_9ArrayDataE', 'CUT_WSTR2': r'TextFormatter.*11writeStringEPKcm'})]
OBS = []
# decades whose query was decided within the budget (the others - a multiplication by 10^k, k >= 4, of a symbolic double - gave
# no verdict in 600-1000 s on minisat, cadical, kissat, z3, cvc5 and cvc5 --solve-bv-as-int and are NOT registered)
DEC = {9: [('1e5', '1e6', 'thorough'), ('1e6', '1e7', 'quick')], 6: [('1e3', '1e4', 'thorough'), ('1e4', '1e5', 'quick'), ('1e5', '1e6', 'quick'), ('1e6', '1e7', 'quick')]}
for pl in (9, 6):
    for lo, hi, tier in DEC[pl]:
        OBS.append(Ob(['C12', 'C02'], 'decomp_p%d_%s' % (pl, lo.replace('.', '_').replace('-', 'm')), 'fp', 'harness/fp.c', 'h_decomp', defs=['PLACES=%d' % pl, 'LO=%s' % lo, 'HI=%s' % hi], unwind=12, cap=(900 if tier == 'quick' else 3000), tier=tier,
            desc='decomposeFloat(x,%d): integral.decimal within %s*max(1,x) of x, digits fit decimalPlaces, no trailing zero' % (pl, '1e-9' if pl == 9 else '1e-6'), bound='all doubles in [%s,%s); normalize() cut (not needed in this range)' % (lo, hi)))
K = dict(unwind=12, cap=900, fs=4096, objbits=12, hunwind=12)
OBS.append(Ob(['C12', 'C02'], 'ser_f64_1e6', 'fp', 'harness/fp.c', 'h_ser_f64', defs=['LO=1e6', 'HI=1e7', 'FLOATREP=0'], desc='doc.set(double x); serializeJson: digits handed to the digit writers are within 1e-9*x of x (x not exactly a float)', bound='all doubles in [1e6,1e7) that are not exactly representable as float; digit writers and normalize() cut', **K))
OBS.append(Ob(['C12', 'C02'], 'ser_f32_1e5', 'fp', 'harness/fp.c', 'h_ser_f32', defs=['LO=1e5', 'HI=1e6'], desc='doc.set(float x); serializeJson: digits within 1e-6*x of x', bound='all floats in [1e5,1e6)', **K))
OBS.append(Ob(['C12'], 'ser_f64_floatrep', 'fp', 'harness/fp.c', 'h_ser_f64', defs=['LO=1e6', 'HI=1e7', 'FLOATREP=1'], kf='double-as-float', desc='known finding: a double that is exactly representable as float is stored as float and printed with float precision', bound='all doubles in [1e6,1e7) exactly representable as float', **K))
