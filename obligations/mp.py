from vfw import Unit, Ob
UNITS = [Unit('mp', 'wrappers/mp.cpp', cuts={'CUT_COLL_SIZE': r'14CollectionData4sizeEPKNS1_15ResourceManagerE'})]
K = dict(cap=200, hunwind=20)
OBS = [
 Ob(['C08', 'C07'], 'mp_uint', 'mp', 'harness/mp_ser.c', 'h_mp_uint', unwind=18, desc='visit(JsonUInt): minimal width, big-endian payload, value preserved', bound='all 2^64 values', **K),
 Ob(['C08', 'C07'], 'mp_int', 'mp', 'harness/mp_ser.c', 'h_mp_int', unwind=18, desc='visit(JsonInteger): decoded by the reference decoder to the same value and sign; minimal width', bound='all 2^64 values', **K),
 Ob(['C08', 'C07'], 'mp_f32', 'mp', 'harness/mp_ser.c', 'h_mp_f32', unwind=18, desc='visit(float): integer shortcut iff integral and in int64 range, else 0xCA + bits', bound='all 2^32 bit patterns', **K),
 Ob(['C08', 'C07'], 'mp_f64', 'mp', 'harness/mp_ser.c', 'h_mp_f64', unwind=18, desc='visit(double): integer shortcut / float32 when lossless / 0xCB + bits', bound='all 2^64 bit patterns', **K),
 Ob(['C08'], 'mp_misc', 'mp', 'harness/mp_ser.c', 'h_mp_misc', unwind=18, desc='nil / true / false', bound='all', **K),
 Ob(['C08', 'C07'], 'mp_str', 'mp', 'harness/mp_ser.c', 'h_mp_str', unwind=18, desc='visit(JsonString): fixstr/str8/str16/str32 ladder, count = header + n, payload verbatim', bound='length symbolic over 0..2^32-1, first 4 payload bytes symbolic', **K),
 Ob(['C08', 'C07'], 'mp_raw', 'mp', 'harness/mp_ser.c', 'h_mp_raw', unwind=18, desc='visit(RawString): bin/ext/serialized bytes verbatim', bound='<= 4 symbolic bytes', **K),
 Ob(['C08', 'C07'], 'mp_array_hdr', 'mp', 'harness/mp_ser.c', 'h_mp_array_hdr', unwind=18, desc='array header ladder 15/16, 65535/65536 (size cut, symbolic)', bound='count symbolic over 0..2^32-1', **K),
 Ob(['C08', 'C07'], 'mp_object_hdr', 'mp', 'harness/mp_ser.c', 'h_mp_object_hdr', unwind=18, desc='map header ladder 15/16, 65535/65536 (size cut, symbolic)', bound='count symbolic over 0..2^31-1', **K),
]
