from vfw import Unit, Ob
DOC = ['ARENA_N=6', 'ARENA_CHUNK=64', 'ARDUINOJSON_POOL_CAPACITY=4', 'ARDUINOJSON_INITIAL_POOL_COUNT=2']
UNITS = [Unit('doc', 'wrappers/doc.cpp', defs=DOC, cuts={'CUT_MF_F': r'10make_floatIfiE', 'CUT_MF_D': r'10make_floatIdiE', 'CUT_DECOMP': r'14decomposeFloatEda'})]
for tw, tn in [(0, 'charptr'), (1, 'jsonstring_copied')]:
    pass
K3 = dict(fs=4096, cap=300, hunwind=40, objbits=12)
OBS = []
for k, b in [('i32', 'all 2^32 values'), ('u32', 'all 2^32 values'), ('i64', 'all 2^64 values'), ('u64', 'all 2^64 values'), ('f32', 'all 2^32 bit patterns'), ('f64', 'all 2^64 bit patterns')]:
    OBS.append(Ob(['C13', 'C04'], 'one_' + k, 'doc', 'harness/doc_one.c', 'h_one_' + k, unwind=6, desc='doc.set(%s v); is<T>()/as<T>() for the ten integer types, float and double equal the value oracle' % k, bound=b + ', public API on an arena allocator', **K3))
for mid, nm in [("'.'", 'dot'), ("'e'", 'exp')]:
    for tw, tn in [(0, 'charptr'), (1, 'jsonstring_copied'), (2, 'jsonstring_linked')]:
        OBS.append(Ob(['C14', 'C13'], 'str_twins_%s_%s' % (nm, tn), 'doc', 'harness/doc_str.c', 'h_str_twins', defs=['MID=' + mid, 'TWIN=%d' % tw], unwind=8,
            desc='numeric string D%sD given as const char* (linked) vs %s: identical is<T>()/as<T>(), no read outside the 4-byte source' % (mid.strip("'"), tn), bound='all 100 digit pairs; exactly-sized source buffers', **K3))
for nm, what, b in [('ops_str_ptr', 'variant(2-byte string) vs C string "ab": six operators in both orders obey the coherence laws; equal iff identical bytes', 'all 2^16 strings'),
                    ('ops_str_var', 'two string variants in two documents: coherence laws; equal iff identical bytes', 'all pairs of 2-byte strings'),
                    ('ops_int_scalar', 'variant(int64) vs int32 scalar: coherence laws and value order', 'all values'),
                    ('arr_eq', 'array equality [x,y] vs [z,w] / [z]', 'all byte-sized x,y,z,w')]:
    OBS.append(Ob(['C18', 'C14'] if 'str' in nm else ['C18'], nm, 'doc', 'harness/doc_ops.c', 'h_' + nm, unwind=8, desc=what, bound=b + '; public API on an arena allocator', **K3))
OBS += [
 Ob(['C02'], 'ser_arr', 'doc', 'harness/doc_ser.c', 'h_ser_arr', unwind=14, desc='serializeJson([i,"s0s1",u], buf, cap) and measureJson: prefix / count / guard bytes / conditional NUL for every capacity', bound='i in -128..127, u in 0..255 (1-4 characters each), both string bytes (all 256 values), capacity 0..length+2', **dict(K3, hunwind=44)),
 Ob(['C02'], 'ser_scalar', 'doc', 'harness/doc_ser.c', 'h_ser_scalar', unwind=8, desc='serializeJson(integer scalar, buf, cap): prefix / count / NUL for every capacity', bound='values -128..127, capacity 0..length+2', **dict(K3, hunwind=34)),
 #Ob(['C02'], 'ser_raw_nonfinite', 'doc', 'harness/doc_ser.c', 'h_ser_raw_nonfinite', unwind=10, desc='raw values verbatim; NaN / +-Infinity serialize as null (default configuration)', bound='raw value of 0..3 symbolic bytes, all capacities', **dict(K3, hunwind=24)),
]
OBS.append(Ob(['C08', 'C02'], 'mser_arr', 'doc', 'harness/doc_ser.c', 'h_mser_arr', unwind=10, desc='serializeMsgPack([i,"s0s1",b,nil], buf, cap) and measureMsgPack: conforming bytes in element order, count = min(cap,len), prefix only, guard bytes', bound='i in -128..127, both string bytes, b, capacity 0..length+2', **dict(K3, hunwind=26)))
for tw, tn in [(0, 'charptr'), (1, 'jsonstring_copied')]:
    OBS.append(Ob(['C14', 'C13'], 'str_twins_exp2_%s' % tn, 'doc', 'harness/doc_str.c', 'h_str_twins', defs=['EXP2=1', 'TWIN=%d' % tw], unwind=9,
        desc='numeric string DeDD (exponents 00..99, single- and double-precision paths) given as const char* (linked) vs %s: identical as<T>()' % tn, bound='all 1000 digit triples; exactly-sized source buffers', **K3))
H = dict(K3, hunwind=12)
for r in (0, 1, 2):
    OBS.append(Ob(['C04', 'C06'], 'hist_add_remove_add_r%d' % r, 'doc', 'harness/doc_hist.c', 'h_add_remove_add', defs=['R=%d' % r], unwind=8, desc='add a,b,c; remove(%d); add d: order, values, size, slot reuse without allocator call, all blocks returned' % r, bound='all int32 values', **H))
for fa in (0, 1, 2):
    OBS.append(Ob(['C05', 'C04'], 'hist_five_adds_fail%d' % fa, 'doc', 'harness/doc_hist.c', 'h_five_adds', defs=['FAILAT=%d' % fa], unwind=8, desc='five add() on 4-slot pools with allocator call #%d failing (0 = none): failure reported exactly there, overflowed(), other elements intact' % fa, bound='all int32 values; failure position part of the shape', **H))
for ix in (0, 1, 3):
    OBS.append(Ob(['C04'], 'hist_set_beyond_%d' % ix, 'doc', 'harness/doc_hist.c', 'h_set_beyond', defs=['IDX=%d' % ix], unwind=8, desc='[a]; doc[%d] = x: array extended with nulls up to the index' % ix, bound='all int32 values', **H))
# hist_copy (copy construction is deep) gave no verdict: VariantData copy visits the source through recursive visitors
OBS.append(Ob(['C05', 'C06', 'C04'], 'hist_clear_reuse', 'doc', 'harness/doc_hist.c', 'h_clear_reuse', unwind=8, desc='clear() releases every block and the document is usable again', bound='all int32 values', **H))
for fa in (0, 1):
    OBS.append(Ob(['C05', 'C19', 'C04'], 'ext_fail%d' % fa, 'doc', 'harness/doc_hist.c', 'h_ext_fail', defs=['EXTFAIL=%d' % fa], unwind=8, desc='doc.set(64-bit integer) with allocator call #%d failing (0 = none): failure reported, overflowed() set, value left null / stored exactly' % fa, bound='all int64 values outside the int32 range', **H))
OBS.append(Ob(['C04', 'C06'], 'readonly_proxy', 'doc', 'harness/doc_hist.c', 'h_readonly_proxy', unwind=8, desc='nesting()/size()/isNull()/operator| on a proxy of a missing element: document unchanged, no allocator call', bound='all int32 values; index 3 of a 1-element array', **H))
OBS.append(Ob(['C13'], 'copyarray_out', 'doc', 'harness/doc_hist.c', 'h_copyarray_out', unwind=8, desc='copyArray([a,b,c], int* dst, cap): returns min(cap,3), copies in order, guard elements untouched', bound='all int32 values, capacity 0..4', **H))
OBS.append(Ob(['C13'], 'copyarray_str', 'doc', 'harness/doc_hist.c', 'h_copyarray_str', unwind=10, desc='copyArray(string value, char[4]): truncated, always NUL-terminated, guard bytes untouched', bound='all strings of 0..6 non-NUL bytes', **H))
for bn in (0, 2, 3):
    OBS.append(Ob(['C08', 'C07'], 'mp_bin_api_n%d' % bn, 'doc', 'harness/doc_ser.c', 'h_bin', defs=['BN=%d' % bn], unwind=10, desc='doc.set(MsgPackBinary(p,%d)); serializeMsgPack / as<MsgPackBinary>(): bin8 header, payload verbatim, read back identical' % bn, bound='all payload bytes', **dict(K3, hunwind=20)))
    OBS.append(Ob(['C08'], 'mp_ext_api_n%d' % bn, 'doc', 'harness/doc_ser.c', 'h_ext', defs=['BN=%d' % bn], unwind=10, desc='doc.set(MsgPackExtension(type,p,%d)); serializeMsgPack: fixext / ext8 header, type byte, payload verbatim' % bn, bound='all type and payload bytes', **dict(K3, hunwind=20)))
OBS.append(Ob(['C02'], 'ser_pretty', 'doc', 'harness/doc_ser.c', 'h_pretty', unwind=12, desc='serializeJsonPretty([i,["s"],[]], buf, cap) and measureJsonPretty: exact layout (CRLF, 2-space indentation, [] for empty), count/prefix/guard/NUL for every capacity', bound='i in -128..127, the string byte (all 256 values), capacity 0..length+2', **dict(K3, hunwind=76)))
for eq in (0,):   # the equal case (shared node) gave no verdict; sharing is decided by the dedup_* obligations
    OBS.append(Ob(['C14', 'C06'], 'shared_strings_%s' % ('equal' if eq else 'different'), 'doc', 'harness/doc_hist.c', 'h_shared_strings', defs=['EQ=%d' % eq], unwind=8, desc='add s, add t (copied, %s), remove(0): survivor intact; equal strings stored once; block released when the last user goes; all blocks returned' % ('equal strings' if eq else 'different strings'), bound='second byte(s) symbolic, first byte fixes equal/different', **H))
for n1, n2 in [(1, 0), (0, 1), (1, 1)]:
    OBS.append(Ob(['C18'], 'arr_eq_null_%d%d' % (n1, n2), 'doc', 'harness/doc_hist.c', 'h_arr_eq_null', defs=['N1NULL=%d' % n1, 'N2NULL=%d' % n2], unwind=8, desc='[x%s] == [z%s] in both operand orders: lengths count, a trailing null is an element' % (',null' if n1 else '', ',null' if n2 else ''), bound='all int32 x, z', **H))
for ub, nm in [(0, 'JsonArrayConst'), (1, 'JsonObjectConst'), (2, 'JsonVariantConst')]:
    OBS.append(Ob(['C04'], 'set_unbound_%d' % ub, 'doc', 'harness/doc_hist.c', 'h_set_unbound', defs=['UNB=%d' % ub], unwind=8, desc='adding an unbound %s to an array adds null (not [] / {})' % nm, bound='all int32 values', **H))
for rn in (1, 3):
    OBS.append(Ob(['C02'], 'ser_raw_n%d' % rn, 'doc', 'harness/doc_ser.c', 'h_ser_raw', defs=['RAWN=%d' % rn], unwind=10, desc='a raw value of %d bytes is emitted verbatim (NUL and every other byte value), count == measure, bounded buffer gets the prefix' % rn, bound='all byte values x capacity 0..n+2', **dict(H, hunwind=20)))
OBS.append(Ob(['C02'], 'ser_custom_writer', 'doc', 'harness/doc_ser.c', 'h_ser_custom', unwind=10, desc='serializeJson([i,"s0s1"]) into a custom writer that accepts only `room` bytes: returned count == bytes accepted == min(room,length)', bound='i in -128..127, all string bytes, room 0..length+2', **dict(H, hunwind=44)))
for how, nm in [(0, 'swap'), (1, 'move')]:
    OBS.append(Ob(['C05'], 'swap_overflow_' + nm, 'doc', 'harness/doc_hist.c', 'h_swap_overflow', defs=['SWAPHOW=%d' % how], unwind=8, desc='overflowed() follows the content through %s' % nm, bound='all 64-bit values needing an extension slot, all int32', **H))
for pp, pf in [(4, 1), (4, 0)]:   # p=0 (null document turned into an array by the assignment) gave no verdict: VariantData::clear recursion over a symbolic tag
    OBS.append(Ob(['C05', 'C04'], 'hist_pad_p%d_fail%d' % (pp, pf), 'doc', 'harness/doc_hist.c', 'h_pad_fail', defs=['PADP=%d' % pp, 'PADFAIL=%d' % pf], unwind=8, desc='doc[%d] = x on %d elements with %s: %s' % (pp + 1, pp, 'one transient failure of the pool allocation for the first padding element' if pf else 'no failure', 'reported, overflowed(), nothing at a wrong index' if pf else 'null gap, value at its index'), bound='all int32 values', **H))
for rk, nm in [(0, 'raw'), (1, 'copied_string')]:
    OBS.append(Ob(['C06', 'C14', 'C19'], 'release_' + nm, 'doc', 'harness/doc_hist.c', 'h_raw_release', defs=['RAWKIND=%d' % rk], unwind=8, desc='element.set(%s of 2 bytes); element.set(int): the string node is released exactly when the value is replaced (VariantData::clear)' % nm, bound='all byte pairs, all int32', **H))
OBS.append(Ob(['C05', 'C19', 'C06'], 'hist_add_str_fail', 'doc', 'harness/doc_hist.c', 'h_add_str_fail', unwind=8, desc='[a,a,a]; add(copied string) whose node allocation fails; add(b): failure reported, slot given back (no allocator call for b), document [a,a,a,b]', bound='all int32 values, all byte pairs', **H))
OBS.append(Ob(['C13'], 'copyarray_2d_out', 'doc', 'harness/doc_hist.c', 'h_copyarray_2d_out', unwind=8, desc='copyArray([[a,b,x],[c]], int dst[2][2]): extra column dropped, missing cell untouched, guard cells untouched', bound='all int32 values', **H))
OBS.append(Ob(['C13', 'C04'], 'copyarray_2d_in', 'doc', 'harness/doc_hist.c', 'h_copyarray_2d_in', unwind=8, desc='copyArray(int src[2][2], doc): [[a,b],[c,d]]', bound='all int32 values', **H))
OBS.append(Ob(['C04', 'C06'], 'hist_nested_remove', 'doc', 'harness/doc_hist.c', 'h_nested_remove', unwind=8, desc='[[a,b],c]; remove(0); add x3: the nested array and its elements are released, all three slots reused with no allocator call, document [c,d,d,d]', bound='all int32 values', **H))
