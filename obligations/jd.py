from vfw import Unit, Ob
# scanner steps: small arena (2 chunks of 48 bytes: one StringBuilder node of 31+1 bytes + header fits), no array field sensitivity (measured 5x cheaper)
SM = ['ARENA_N=2', 'ARENA_CHUNK=48']
UNITS = [Unit('jd', 'wrappers/jd.cpp', defs=SM)]
PQS1 = [(r'parseQuotedString.*\.1$', 11)]   # EscapeSequence::unescapeChar table walk (9 entries)
U = ['UNIT_H="jd.h"']
OBS = [
 Ob(['C01', 'C03', 'C10', 'C16', 'C17'], 'pqs_n3', 'jd', 'harness/jd_str.c', 'h_pqs', defs=U + ['NB=3'], unwind=7, lunwind=PQS1, fs='none', cap=300, hunwind=24,
    desc='parseQuotedString == reference unescaper (code, consumed bytes, decoded bytes, NUL termination, no look-ahead)', bound='either quote + all 2^24 strings of 3 following bytes (VReader, bounded)'),
 Ob(['C17', 'C01', 'C10'], 'pqs_u6', 'jd', 'harness/jd_str.c', 'h_pqs', defs=U + ['NB=7', 'PREFIX_U=1'], unwind=10, lunwind=PQS1, fs='none', cap=300, hunwind=36,
    desc='parseQuotedString on quote + \\u + 5 free bytes: every \\uXXXX unit, hex case, truncation', bound='all 2^40 continuations of "\\u'),
 Ob(['C03', 'C10', 'C11', 'C16'], 'sqs_n5', 'jd', 'harness/jd_str.c', 'h_sqs', defs=U + ['NB=5'], unwind=9, fs='none', cap=300, hunwind=24,
    desc='skipQuotedString agrees with the parser on accepted strings, never accepts an unterminated one', bound='either quote + all strings of 5 bytes'),
]
L = dict(fs='none', cap=200, hunwind=24)
OBS += [
 Ob(['C10'], 'charclasses', 'jd', 'harness/jd_leaf.c', 'h_charclasses', defs=U, unwind=3, desc='canBeInNumber / canBeInNonQuotedString / isQuote', bound='all 256 characters', **L),
 Ob(['C10', 'C17', 'C03'], 'hex4', 'jd', 'harness/jd_leaf.c', 'h_hex4', defs=U, unwind=6, desc='parseHex4 == reference (value, case folding, InvalidInput on non-hex, IncompleteInput on NUL/end)', bound='all 2^32 4-byte inputs x length 0..4', **L),
 Ob(['C10', 'C16', 'C03'], 'keyword', 'jd', 'harness/jd_leaf.c', 'h_keyword', defs=U + ['NB=6'], unwind=8, desc='skipKeyword(true/false/null): exact match, classification, no look-ahead', bound='all inputs of <= 6 bytes x 3 keywords', **L),
 Ob(['C10', 'C16', 'C03'], 'spaces_nocomments', 'jd', 'harness/jd_leaf.c', 'h_spaces', defs=U + ['NB=4'], unwind=7, desc='skipSpacesAndComments (comments disabled): blanks skipped, EmptyInput vs IncompleteInput, first significant byte latched', bound='all 2^32 4-byte inputs x foundSomething', **L),
 Ob(['C16', 'C03', 'C11'], 'skipnum', 'jd', 'harness/jd_leaf.c', 'h_skipnum', defs=U + ['NB=5'], unwind=8, desc='skipNumericValue consumes the maximal run of number characters + at most one look-ahead byte', bound='all 5-byte inputs', **L),
]
CONT = ['ARENA_N=3', 'ARENA_CHUNK=64', 'ARDUINOJSON_POOL_CAPACITY=4', 'ARDUINOJSON_INITIAL_POOL_COUNT=2']
UNITS += [Unit('jd_cont', 'wrappers/jd.cpp', defs=CONT, cuts={
    'CUT_PV_ALL': r'12parseVariantINS1_14AllowAllFilterE', 'CUT_SV': r'11skipVariantE',
    'CUT_ADD_ELEMENT': r'9ArrayData10addElementEPNS1_15ResourceManagerE$'})]
UC = ['UNIT_H="jd_cont.h"']
OBS += [
 Ob(['C01', 'C03', 'C10', 'C15', 'C16'], 'parse_array_step', 'jd_cont', 'harness/jd_cont.c', 'h_parse_array', defs=UC + ['NB=4'], unwind=7, fs='none', cap=300, hunwind=12,
    desc='parseArray<AllowAll> one activation, children cut: code/consumed/children/limit/element order equal the reference recogniser', bound="'[' + all 2^32 continuations of 4 bytes, all limits 0..255, every child behaviour allowed by the contract (<= 4 children)"),
 Ob(['C03', 'C10', 'C11', 'C15', 'C16'], 'skip_array_step', 'jd_cont', 'harness/jd_cont.c', 'h_skip_array', defs=UC + ['NB=4'], unwind=7, fs='none', cap=300, hunwind=12,
    desc='skipArray one activation, children cut', bound="'[' + all continuations of 4 bytes, all limits, all child behaviours (<= 4 children)"),
]
UNITS += [Unit('jd_top', 'wrappers/jd.cpp', defs=SM, cuts={'CUT_PV_ALL': r'12parseVariantINS1_14AllowAllFilterE'})]
UT = ['UNIT_H="jd_top.h"']
OBS += [
 Ob(['C01', 'C10', 'C16'], 'parse_top', 'jd_top', 'harness/jd_top.c', 'h_parse_top', defs=UT, unwind=5, fs='none', cap=200, hunwind=12,
    desc='parse(): result = top-level value result, whatever byte follows a complete value (whitespace after a number included); look-ahead discipline', bound='all 3-byte inputs, all child behaviours allowed by the contract, all limits'),
 Ob(['C10'], 'parse_top_number_garbage', 'jd_top', 'harness/jd_top.c', 'h_parse_top', defs=UT + ['KF_GARBAGE=1'], unwind=5, fs='none', cap=200, hunwind=12, kf='number-garbage',
    desc='known finding: a top-level number followed by a non-blank byte (1, / 2] / 6a9) is InvalidInput', bound='all 3-byte inputs'),
]
DD = ['ARENA_N=4', 'ARENA_CHUNK=64']
UNITS += [Unit('jd_dd', 'wrappers/jd.cpp', defs=DD)]
for pl in (2, 5):
    OBS.append(Ob(['C06', 'C14', 'C01', 'C07'], 'dedup_json_pre%d' % pl, 'jd_dd', 'harness/dedup.c', 'h_dedup', defs=['UNIT_H="jd_dd.h"', 'PRELEN=%d' % pl], unwind=14, cap=300, hunwind=12, fs=512,
        desc='parseStringValue of "ab\\u0000cd" into a pool holding one string of %d symbolic bytes: full length kept, shared iff identical, reference count exact (StringBuilder::save / StringPool)' % pl,
        bound='all values of the %d bytes of the pre-existing string' % pl))
UNITS += [Unit('jd_num', 'wrappers/jd.cpp', defs=SM, cuts={'CUT_PARSENUMBER': r'6detail11parseNumberEPKc$'})]
for nb in (63, 64, 5):
    OBS.append(Ob(['C01', 'C03', 'C12', 'C16'], 'pnumval_n%d' % nb, 'jd_num', 'harness/jd_num.c', 'h_pnumval', defs=['UNIT_H="jd_num.h"', 'NB=%d' % nb, 'NUMBER_RET=struct L_i8_i64_E'], unwind=70, fs='none', cap=300, hunwind=70,
        desc='parseNumericValue buffer fill with parseNumber cut: %d number characters copied verbatim + NUL, one latched look-ahead' % nb, bound='all numerals of exactly %d number characters followed by any non-number byte' % nb))
UNITS += [Unit('jd_sobj', 'wrappers/jd.cpp', defs=CONT, cuts={'CUT_PV_ALL': r'12parseVariantINS1_14AllowAllFilterE', 'CUT_SV': r'11skipVariantE', 'CUT_ADD_ELEMENT': r'9ArrayData10addElementEPNS1_15ResourceManagerE$',
    'CUT_SKEY': r'JsonDeserializerI7VReaderE7skipKeyEv'})]
OBS.append(Ob(['C15', 'C10', 'C03', 'C11', 'C16'], 'skip_object_step', 'jd_sobj', 'harness/jd_cont.c', 'h_skip_object', defs=['UNIT_H="jd_sobj.h"', 'NB=3'], unwind=6, fs='none', cap=400, hunwind=12,
    desc='skipObject one activation (keys and values cut): code / consumed / keys / values / limit equal the reference object recogniser', bound="'{' + all continuations of 3 bytes, all limits, every key / value behaviour allowed by the contracts (<= 4 members)"))
UNITS += [Unit('jd_pobj', 'wrappers/jd.cpp', defs=CONT, cuts={'CUT_PV_ALL': r'12parseVariantINS1_14AllowAllFilterE', 'CUT_SV': r'11skipVariantE', 'CUT_PKEY': r'JsonDeserializerI7VReaderE8parseKeyEv',
    'CUT_GETMEMBER?': r'(?:^|@)_ZNK\w*10ObjectData9getMemberINS1_19StaticStringAdapterE', 'CUT_GETMEMBER_SIZED?': r'(?:^|@)_ZNK\w*10ObjectData9getMemberINS1_17JsonStringAdapterE', 'CUT_SB_SAVE': r'13StringBuilder4saveEv$', 'CUT_ADD_MEMBER': r'10ObjectData9addMemberIPNS1_10StringNodeE', 'CUT_VCLEAR': r'11VariantData5clearEPNS1_15ResourceManagerE$'})]
OBS.append(Ob(['C01', 'C14'], 'parse_object_nulkey', 'jd_pobj', 'harness/jd_cont.c', 'h_parse_object', defs=['UNIT_H="jd_pobj.h"', 'NB=2', 'NULKEY=1'], unwind=5, fs='none', cap=800, hunwind=12,
    desc='parseObject with a parsed key that contains NUL (k NUL x): the member lookup receives the whole key, length included (a prefix match would overwrite another member)',
    bound="'{' + all continuations of 2 bytes, all limits, every contract-allowed callee behaviour"))
for nb_, tier_, cap_ in [(2, 'quick', 800), (3, 'thorough', 2000)]:
    OBS.append(Ob(['C01', 'C15', 'C10', 'C03', 'C05', 'C16'], 'parse_object_step_n%d' % nb_, 'jd_pobj', 'harness/jd_cont.c', 'h_parse_object', defs=['UNIT_H="jd_pobj.h"', 'NB=%d' % nb_], unwind=nb_ + 3, fs='none', cap=cap_, tier=tier_, hunwind=12,
        desc='parseObject<AllowAll> one activation (key scanner, member lookup/creation, clear and values cut): token discipline, limit, repeated key parsed into the existing member after exactly one clear, new key saved+added once, NoMemory on a failed member slot',
        bound="'{' + all continuations of %d bytes, all limits, every key / lookup / allocation / value behaviour allowed by the contracts" % nb_))
UNITS += [Unit('jd_fcont', 'wrappers/jd.cpp', defs=CONT + ['ARENA_N=4'], cuts={'CUT_PV_ALL': r'12parseVariantINS1_14AllowAllFilterE', 'CUT_PV_FILTER': r'12parseVariantINS0_21DeserializationOption6FilterE', 'CUT_SV': r'11skipVariantE',
    'CUT_ADD_ELEMENT': r'9ArrayData10addElementEPNS1_15ResourceManagerE$'})]
for fs_, nm in [(0, 'true'), (1, 'false'), (2, '[true]'), (3, '[false]'), (4, '[]'), (5, '{}')]:
    OBS.append(Ob(['C11', 'C15', 'C03'], 'parse_array_filter_%d' % fs_, 'jd_fcont', 'harness/jd_cont.c', 'h_parse_array_filter', defs=['UNIT_H="jd_fcont.h"', 'NB=3', 'FSHAPE=%d' % fs_], unwind=6, fs='none', cap=400, hunwind=12,
        desc='array input under the filter %s (children cut): array created iff admitted, each element parsed iff the element filter allows it else skipped, slots only for kept elements, same token discipline / limit / codes as the reference' % nm,
        bound="'[' + all continuations of 3 bytes, all limits, every child behaviour allowed by the contract"))
UNITS += [Unit('jd_fobj', 'wrappers/jd.cpp', defs=CONT + ['ARENA_N=4'], cuts={'CUT_PV_ALL?': r'12parseVariantINS1_14AllowAllFilterE', 'CUT_PV_FILTER': r'12parseVariantINS0_21DeserializationOption6FilterE', 'CUT_SV': r'11skipVariantE', 'CUT_PKEY': r'JsonDeserializerI7VReaderE8parseKeyEv', 'CUT_SKEY?': r'JsonDeserializerI7VReaderE7skipKeyEv',
    # (the zero-terminated getMember instantiation is what Filter::operator[] itself uses on the filter document: it stays real)
    'CUT_GETMEMBER_SIZED?': r'(?:^|@)_ZNK\w*10ObjectData9getMemberINS1_17JsonStringAdapterE', 'CUT_SB_SAVE': r'13StringBuilder4saveEv$', 'CUT_ADD_MEMBER': r'10ObjectData9addMemberIPNS1_10StringNodeE', 'CUT_VCLEAR': r'11VariantData5clearEPNS1_15ResourceManagerE$'})]
for fs_, nm in [(0, 'true'), (1, '{"k":true}'), (2, '{"x":true}'), (3, '{}'), (4, '{"*":true}')]:
    OBS.append(Ob(['C11', 'C15', 'C03'], 'parse_object_filter_%d' % fs_, 'jd_fobj', 'harness/jd_cont.c', 'h_parse_object_filter', defs=['UNIT_H="jd_fobj.h"', 'NB=2', 'FSHAPE=%d' % fs_], unwind=5, fs='none', cap=800, hunwind=12, objbits=12,
        desc='object input under the filter %s (key scanner, lookup/creation and values cut; every key is "k"): member parsed iff its filter allows it else skipped without lookup or allocation; same token discipline / limit / codes' % nm,
        bound="'{' + all continuations of 2 bytes, all limits, every contract-allowed callee behaviour"))
# other input kinds (C03: the result depends on the bytes, not on the reader): the same harnesses on the library's own
# zero-terminated Reader<const char*> (READER=1, buffer exactly sized up to its terminator) and BoundedReader (READER=2)
for rd, nm in [(1, 'zt'), (2, 'bounded')]:
    un = 'jd_r%d' % rd
    UNITS.append(Unit(un, 'wrappers/jd.cpp', defs=SM + ['READER=%d' % rd]))
    UR = ['UNIT_H="%s.h"' % un, 'HAVE_POS=0']
    OBS.append(Ob(['C03', 'C01'], 'pqs_n3_' + nm, un, 'harness/jd_str.c', 'h_pqs', defs=UR + ['NB=3'], unwind=7, lunwind=PQS1, fs='none', cap=300, hunwind=24,
        desc='parseQuotedString through the %s reader == the same reference unescaper; no read beyond the terminator / size' % ('zero-terminated Reader<const char*>' if rd == 1 else 'BoundedReader<const char*>'), bound='either quote + all strings of 3 following bytes'))
    OBS.append(Ob(['C03'], 'sqs_n4_' + nm, un, 'harness/jd_str.c', 'h_sqs', defs=UR + ['NB=4'], unwind=8, fs='none', cap=300, hunwind=24,
        desc='skipQuotedString through the %s reader' % ('zero-terminated' if rd == 1 else 'bounded'), bound='either quote + all strings of 4 bytes'))
OBS.append(Ob(['C03', 'C17'], 'pqs_u6_twice', 'jd', 'harness/jd_str.c', 'h_pqs_twice', defs=U + ['NB=7', 'PREFIX_U=1'], unwind=10, lunwind=PQS1, fs='none', cap=400, hunwind=40,
    desc='parseQuotedString run twice on the same input (quote + \\\\u + 5 free bytes): identical code, length and decoded bytes - no dependence on uninitialised state, lone surrogates included', bound='all 2^40 continuations of "\\\\u'))
# ---- parseVariant / skipVariant dispatch: every routine below is cut; which one runs, with which limit, on which bytes
JV = r'JsonDeserializerI7VReaderE'
UNITS += [Unit('jd_var', 'wrappers/jd.cpp', defs=SM, cuts={
    'CUT_PA_ALL': JV + r'10parseArrayINS1_14AllowAllFilterE', 'CUT_PA_F': JV + r'10parseArrayINS0_21DeserializationOption6FilterE',
    'CUT_PO_ALL': JV + r'11parseObjectINS1_14AllowAllFilterE', 'CUT_PO_F': JV + r'11parseObjectINS0_21DeserializationOption6FilterE',
    'CUT_SA': JV + r'9skipArrayE', 'CUT_SO': JV + r'10skipObjectE', 'CUT_PSV': JV + r'16parseStringValueE', 'CUT_SQS': JV + r'16skipQuotedStringEv',
    'CUT_SKW': JV + r'11skipKeywordEPKc', 'CUT_PNV': JV + r'17parseNumericValueE', 'CUT_SNV': JV + r'16skipNumericValueEv'})]
VD = dict(unit='jd_var', harness='harness/jd_var.c', entry='h_variant_dispatch', unwind=5, fs='none', cap=300, hunwind=8)
OBS.append(Ob(['C01', 'C10', 'C15', 'C16', 'C03'], 'variant_dispatch_all', defs=['UNIT_H="jd_var.h"', 'MODE=0'], desc='parseVariant<AllowAll>: after blanks the first byte selects exactly one routine (array/object/string/keyword/number), run once on the unconsumed byte with the caller limit; its code is the code; true/false stored', bound='all 2-byte inputs, all limits, every result code of the routine', **VD))
OBS.append(Ob(['C11', 'C16', 'C03'], 'variant_dispatch_skip', defs=['UNIT_H="jd_var.h"', 'MODE=2'], desc='skipVariant: same selection among the skipping routines', bound='all 2-byte inputs, all limits, every result code', **VD))
for fs_, nm in [(0, 'true'), (1, 'false'), (2, '[true]'), (3, '[false]'), (4, '[]'), (5, '{}')]:
    OBS.append(Ob(['C11', 'C15', 'C03'], 'variant_dispatch_filter_%d' % fs_, defs=['UNIT_H="jd_var.h"', 'MODE=1', 'FSHAPE=%d' % fs_], desc='parseVariant<Filter> under the filter %s: parsing routine iff the filter admits that kind, else the skipping twin and a null destination; true/false stored iff scalars admitted' % nm, bound='all 2-byte inputs, all limits, every result code', **VD))

UNITS += [Unit('jd_cm', 'wrappers/jd.cpp', defs=SM + ['ARDUINOJSON_ENABLE_COMMENTS=1'])]
for nb_, un_ in [(5, 9), (6, 10)]:
    OBS.append(Ob(['C10', 'C16', 'C03'], 'spaces_blockcomment_n%d' % nb_, 'jd_cm', 'harness/jd_leaf.c', 'h_spaces', defs=['UNIT_H="jd_cm.h"', 'NB=%d' % nb_, 'COMMENTS=1', 'CMPREFIX=1'], unwind=un_, cap=600, hunwind=12,
        desc='skipSpacesAndComments with comments enabled, input opening a block comment: the comment ends at the first "*/" only', bound='"/*" + all continuations of %d bytes' % (nb_ - 2)))
OBS.append(Ob(['C10', 'C16', 'C03'], 'spaces_linecomment_n5', 'jd_cm', 'harness/jd_leaf.c', 'h_spaces', defs=['UNIT_H="jd_cm.h"', 'NB=5', 'COMMENTS=1', 'CMPREFIX=2'], unwind=9, cap=600, hunwind=12,
    desc='skipSpacesAndComments with comments enabled, input opening a line comment: it ends at the first newline only; end of input inside => IncompleteInput', bound='"//" + all continuations of 3 bytes'))
# (a symbolic byte right after the slash - block comment, line comment or InvalidInput - makes CBMC's accounting of the scanner's
#  merged loops report a too-small unwinding bound at every bound tried (9, 14, 22): not registered; the comment openers are concrete)

# ---- NaN / Infinity configuration (ARDUINOJSON_ENABLE_NAN=1, ARDUINOJSON_ENABLE_INFINITY=1): the number character class widens to letters
UNITS += [Unit('jd_nan', 'wrappers/jd.cpp', defs=SM + ['ARDUINOJSON_ENABLE_NAN=1', 'ARDUINOJSON_ENABLE_INFINITY=1'])]
UN = ['UNIT_H="jd_nan.h"', 'NANINF=1']
OBS += [
 Ob(['C10'], 'charclasses_naninf', 'jd_nan', 'harness/jd_leaf.c', 'h_charclasses', defs=UN, unwind=3, desc='canBeInNumber / canBeInNonQuotedString / isQuote in the NaN+Infinity build: number characters are digits + - . and ASCII letters, nothing else', bound='all 256 characters', **L),
 Ob(['C10', 'C16', 'C03'], 'skipnum_naninf', 'jd_nan', 'harness/jd_leaf.c', 'h_skipnum', defs=UN + ['NB=5'], unwind=8, desc='skipNumericValue in the NaN+Infinity build: maximal run of number characters (letters included) + at most one look-ahead byte', bound='all 5-byte inputs', **L),
 Ob(['C10', 'C16', 'C03'], 'keyword_naninf', 'jd_nan', 'harness/jd_leaf.c', 'h_keyword', defs=UN + ['NB=6'], unwind=8, desc='skipKeyword(true/false/null) in the NaN+Infinity build: exact match, no look-ahead', bound='all inputs of <= 6 bytes x 3 keywords', **L),
]

# ---- ARDUINOJSON_DECODE_UNICODE=0: \\u escapes are not decoded, they are kept verbatim; everything else unchanged
UNITS += [Unit('jd_nou', 'wrappers/jd.cpp', defs=SM + ['ARDUINOJSON_DECODE_UNICODE=0'])]
UNOU = ['UNIT_H="jd_nou.h"', 'NODECODE=1']
OBS += [
 Ob(['C17', 'C10', 'C03'], 'pqs_n3_nounicode', 'jd_nou', 'harness/jd_str.c', 'h_pqs', defs=UNOU + ['NB=3'], unwind=12, fs='none', cap=300, hunwind=24,
    desc='parseQuotedString in the DECODE_UNICODE=0 build == reference unescaper that keeps \\u verbatim (code, consumed bytes, bytes, NUL termination)', bound='either quote + all 2^24 strings of 3 following bytes'),
 Ob(['C17', 'C10'], 'pqs_u6_nounicode', 'jd_nou', 'harness/jd_str.c', 'h_pqs', defs=UNOU + ['NB=7', 'PREFIX_U=1'], unwind=12, fs='none', cap=300, hunwind=36,
    desc='parseQuotedString in the DECODE_UNICODE=0 build on quote + \\u + 5 free bytes: the escape and the following bytes are stored verbatim, no hex validation', bound='all 2^40 continuations of "\\u'),
 Ob(['C03', 'C10', 'C16'], 'sqs_n5_nounicode', 'jd_nou', 'harness/jd_str.c', 'h_sqs', defs=UNOU + ['NB=5'], unwind=9, fs='none', cap=300, hunwind=24,
    desc='skipQuotedString in the DECODE_UNICODE=0 build agrees with the parser on accepted strings', bound='either quote + all strings of 5 bytes'),
]
