from vfw import Unit, Ob
LHS = ['i64', 'u64', 'f64']
RHS = ['i8', 'u8', 'i16', 'u16', 'i32', 'u32', 'i64', 'u64', 'f32', 'f64']
OBS = []
for a in LHS:
    for b in RHS:
        OBS.append(Ob('C18', 'cmp_%s_%s' % (a, b), 'num', 'harness/cmp.c', 'h_cmp_%s_%s' % (a, b), unwind=2, cap=120,
                      desc='arithmeticCompare<%s,%s> (variant visitor type vs C++ scalar / other visitor type) equals the value oracle' % (a, b),
                      bound='all pairs of values of the two types (NaN excluded)', validate=6))
META = {'C18': dict(level='model_checking', assumptions=['NaN operands are excluded (the property speaks of numbers)'], not_claimed=[])}
