from vfw import Unit, Ob
UNITS = []; OBS = []
GEOMS = [(1, 15, 4, 'quick'), (1, 51, 2, 'thorough'), (1, 16, 1, 'quick'), (1, 16, 3, 'quick'), (1, 16, 4, 'quick'), (1, 10, 4, 'quick'), (1, 20, 16, 'quick'), (1, 16, 2, 'thorough'), (1, 8, 4, 'thorough'), (1, 64, 3, 'thorough')]
for sid, pc, ipc, tier in GEOMS:
    un = 'pool_s%d_c%d_i%d' % (sid, pc, ipc)
    UNITS.append(Unit(un, 'wrappers/pool.cpp', defs=['ARDUINOJSON_SLOT_ID_SIZE=%d' % sid, 'ARDUINOJSON_POOL_CAPACITY=%d' % pc, 'ARDUINOJSON_INITIAL_POOL_COUNT=%d' % ipc,
                                                         'ARENA_N=3', 'ARENA_CHUNK=%d' % max(512, pc * 16 + 64), 'TABLE=%d' % (2 * (255 // pc + 1) + 8)]))
    OBS.append(Ob(['C19', 'C04', 'C05', 'C06'], 'alloc_' + un, un, 'harness/pool.c', 'h_pool_alloc', defs=['UNIT_H="%s.h"' % un], unwind=12, tier=tier, cap=(300 if tier == 'quick' else 900), hunwind=12, fs='none',
                  desc='MemoryPoolList::allocSlot inductive step (SLOT_ID_SIZE=%d, POOL_CAPACITY=%d, INITIAL_POOL_COUNT=%d): invariant re-established, id arithmetic, maxPools, clean failure when full or out of memory' % (sid, pc, ipc),
                  bound='every pool-table state satisfying the invariant x every allocator-failure subset of the step (3 calls)'))
OBS.append(Ob(['C19', 'C06', 'C03'], 'strnode_len2', 'pool_s1_c16_i4', 'harness/pool.c', 'h_strnode', defs=['UNIT_H="pool_s1_c16_i4.h"'], unwind=4, cap=100, desc='StringNode::create: length cap before allocation, exact request size, no narrowing (STRING_LENGTH_SIZE=2)', bound='length symbolic over all of size_t'))
PU = 'pool_s1_c16_i4'
OBS += [
 Ob(['C06', 'C05', 'C19'], 'strnode_resize', PU, 'harness/pool.c', 'h_strnode_resize', defs=['UNIT_H="%s.h"' % PU], unwind=4, cap=100, desc='StringNode::resize: success stores the new length; failure (length above maximum or allocator failure) releases the old node exactly once', bound='new length symbolic over all of size_t, old length 0..7, allocator may fail'),
 Ob(['C19', 'C06', 'C14', 'C03'], 'widths', PU, 'harness/pool.c', 'h_widths', defs=['UNIT_H="%s.h"' % PU], unwind=2, cap=60, desc='reference counter width == slot id width', bound='configuration constant'),
 Ob(['C05', 'C04', 'C06', 'C19', 'C03'], 'pool_clear_inline', PU, 'harness/pool.c', 'h_pool_clear', defs=['UNIT_H="%s.h"' % PU, 'HEAPT=0'], unwind=6, cap=200, hunwind=12, desc='MemoryPoolList::clear from any valid inline-table state: empty, inline table, inline capacity, heap table released once', bound='every (count <= 3, capacity, free list) satisfying the invariant'),
 Ob(['C05', 'C04', 'C06', 'C19', 'C03'], 'pool_clear_heap', PU, 'harness/pool.c', 'h_pool_clear', defs=['UNIT_H="%s.h"' % PU, 'HEAPT=1'], unwind=6, cap=200, hunwind=12, desc='MemoryPoolList::clear from any valid heap-table state: empty, inline table, inline capacity, heap table released once', bound='every (count <= 3, capacity, free list) satisfying the invariant'),
 Ob(['C04', 'C06'], 'pool_swap', PU, 'harness/pool.c', 'h_pool_swap', defs=['UNIT_H="%s.h"' % PU], unwind=8, cap=200, hunwind=12, desc='swap(MemoryPoolList, MemoryPoolList) on inline tables: counts, free lists and pool descriptors exchanged', bound='counts 0..2, all free-list heads'),
]
for un_, tier_ in [('pool_s1_c10_i4', 'quick'), ('pool_s1_c16_i4', 'quick')]:
    OBS.append(Ob(['C19', 'C06', 'C04'], 'free_alloc_' + un_, un_, 'harness/pool.c', 'h_pool_free_alloc', defs=['UNIT_H="%s.h"' % un_], unwind=8, tier=tier_, cap=200, hunwind=12,
        desc='freeSlot(getSlot(id)) then allocSlot on %s: same slot, same id, id %% capacity / id / capacity addressing, no allocator call' % un_, bound='1..4 pools, every id in use'))
for ht_, nm_ in [(0, 'inline'), (1, 'heap')]:
    OBS.append(Ob(['C04', 'C03', 'C06', 'C19'], 'pool_shrink_' + nm_, PU, 'harness/pool.c', 'h_pool_shrink', defs=['UNIT_H="%s.h"' % PU, 'HEAPT=%d' % ht_], unwind=6, cap=200, desc='MemoryPoolList::shrinkToFit from any valid table state (%s table): recorded capacity == entries of the kept block, last pool trimmed to its usage' % nm_, bound='count <= 3 pools, every capacity the growth rule can produce, every usage'))
