from vfw import Unit, Ob
UNITS = []; OBS = []
GEOMS = [(1, 16, 1, 'quick'), (1, 16, 3, 'quick'), (1, 16, 4, 'quick'), (1, 16, 2, 'thorough'), (1, 8, 4, 'thorough'), (1, 64, 3, 'thorough'), (1, 2, 1, 'thorough')]
for sid, pc, ipc, tier in GEOMS:
    un = 'pool_s%d_c%d_i%d' % (sid, pc, ipc)
    UNITS.append(Unit(un, 'wrappers/pool.cpp', defs=['ARDUINOJSON_SLOT_ID_SIZE=%d' % sid, 'ARDUINOJSON_POOL_CAPACITY=%d' % pc, 'ARDUINOJSON_INITIAL_POOL_COUNT=%d' % ipc,
                                                         'ARENA_N=3', 'ARENA_CHUNK=512', 'TABLE=%d' % (2 * (255 // pc + 1) + 8)]))
    OBS.append(Ob(['C19', 'C04', 'C05', 'C06'], 'alloc_' + un, un, 'harness/pool.c', 'h_pool_alloc', defs=['UNIT_H="%s.h"' % un], unwind=12, tier=tier, cap=300, hunwind=12, fs='none',
                  desc='MemoryPoolList::allocSlot inductive step (SLOT_ID_SIZE=%d, POOL_CAPACITY=%d, INITIAL_POOL_COUNT=%d): invariant re-established, id arithmetic, maxPools, clean failure when full or out of memory' % (sid, pc, ipc),
                  bound='every pool-table state satisfying the invariant x every allocator-failure subset of the step (3 calls)'))
OBS.append(Ob(['C19', 'C06', 'C03'], 'strnode_len2', 'pool_s1_c16_i4', 'harness/pool.c', 'h_strnode', defs=['UNIT_H="pool_s1_c16_i4.h"'], unwind=4, cap=100, desc='StringNode::create: length cap before allocation, exact request size, no narrowing (STRING_LENGTH_SIZE=2)', bound='length symbolic over all of size_t'))
