from vfw import Unit, Ob
MPD = ['ARENA_N=3', 'ARENA_CHUNK=64', 'ARDUINOJSON_POOL_CAPACITY=4', 'ARDUINOJSON_INITIAL_POOL_COUNT=2']
UNITS = [Unit('mpd', 'wrappers/mpd.cpp', defs=MPD, cuts={'CUT_RA': r'MsgPackDeserializerI7VReaderE9readArrayINS1_14AllowAllFilterE', 'CUT_RO': r'MsgPackDeserializerI7VReaderE10readObjectINS1_14AllowAllFilterE'})]
U = ['UNIT_H="mpd.h"']
OBS = []
for fam, nm, nb, what in [(0, 'fix_nil_bool', 3, 'fixint / nil / bool / 0xC1'), (1, 'ints', 10, 'uint8..64 / int8..64'), (2, 'floats', 10, 'float32 / float64'),
                          (3, 'str', 8, 'fixstr / str8 / str16 / str32'), (4, 'bin_ext', 9, 'bin8-32 / ext8-32 / fixext1-16'), (5, 'containers', 6, 'fixarray / array16-32 / fixmap / map16-32 headers')]:
    OBS.append(Ob(['C09', 'C03', 'C15', 'C16', 'C06', 'C07'], 'md_variant_' + nm, 'mpd', 'harness/mpd.c', 'h_md_variant', defs=U + ['NB=%d' % nb, 'FAMILY=%d' % fam], unwind=nb + 3, cap=900, hunwind=20, fs='none',
        desc='MsgPackDeserializer::parseVariant == reference decoder on the %s codes: value/width/sign, bit-exact floats, bytes verbatim, truncation at every position => IncompleteInput, container headers hand count and unchanged limit to the (cut) readers' % what,
        bound='every code of the family x all continuations up to %d bytes x every truncation length; arena allocator' % nb))
OBS.append(Ob(['C09', 'C03', 'C16', 'C07'], 'md_key', 'mpd', 'harness/mpd.c', 'h_md_key', defs=U + ['NB=20'], unwind=23, cap=400, hunwind=24, fs='none',
    desc='readKey == reference: only str formats, exact length for fixstr (0..31) / str8 / str16 / str32, truncation => IncompleteInput, bytes verbatim', bound='all 256 first bytes x all continuations up to 20 bytes x every truncation length'))
UNITS += [Unit('mpd_dd', 'wrappers/mpd.cpp', defs=['ARENA_N=4', 'ARENA_CHUNK=64', 'ARDUINOJSON_POOL_CAPACITY=4', 'ARDUINOJSON_INITIAL_POOL_COUNT=2'])]
for pl in (2, 5):
    OBS.append(Ob(['C06', 'C14', 'C09', 'C03'], 'dedup_msgpack_pre%d' % pl, 'mpd_dd', 'harness/dedup.c', 'h_dedup', defs=['UNIT_H="mpd_dd.h"', 'MSGPACK=1', 'PRELEN=%d' % pl], unwind=14, cap=300, hunwind=12, fs=512,
        desc='deserializing fixstr "ab\\0cd" into a pool holding one string of %d symbolic bytes: full length kept, shared iff identical, reference count exact (StringBuffer::save / StringPool)' % pl,
        bound='all values of the %d bytes of the pre-existing string' % pl))
UNITS += [Unit('mpd_cont', 'wrappers/mpd.cpp', defs=MPD, cuts={'CUT_MPV': r'MsgPackDeserializerI7VReaderE12parseVariantINS1_14AllowAllFilterE', 'CUT_ADD_ELEMENT': r'9ArrayData10addElementEPNS1_15ResourceManagerE$',
    'CUT_ADD_MEMBER': r'10ObjectData9addMemberIPNS1_10StringNodeEEEPNS1_11VariantDataET_PNS1_15ResourceManagerE$', 'CUT_RKEY': r'MsgPackDeserializerI7VReaderE7readKeyEv'})]
for ob_, nm in [(0, 'array'), (1, 'object')]:
    OBS.append(Ob(['C15', 'C09', 'C03', 'C05'], 'md_read_' + nm, 'mpd_cont', 'harness/mpd_cont.c', 'h_md_container', defs=['UNIT_H="mpd_cont.h"', 'OBJECT=%d' % ob_], unwind=6, cap=300, hunwind=8, fs='none',
        desc='MsgPack read%s one activation (children, keys and slot allocation cut): limit 0 => TooDeep first, children get limit-1, count honoured, first failure decides the code, NoMemory on a failed slot' % nm.capitalize(),
        bound='announced count 0..3, all limits 0..255, every child / key / allocation behaviour allowed by the contracts'))
UNITS += [Unit('mpd_f', 'wrappers/mpd.cpp', defs=MPD, cuts={'CUT_RA': r'MsgPackDeserializerI7VReaderE9readArrayINS1_14AllowAllFilterE', 'CUT_RO': r'MsgPackDeserializerI7VReaderE10readObjectINS1_14AllowAllFilterE',
    'CUT_RAF': r'MsgPackDeserializerI7VReaderE9readArrayINS0_21DeserializationOption6FilterE', 'CUT_ROF': r'MsgPackDeserializerI7VReaderE10readObjectINS0_21DeserializationOption6FilterE'})]
for fs_, nm in [(0, 'true'), (1, 'false'), (2, '{}'), (3, '[]')]:
    OBS.append(Ob(['C11', 'C03', 'C09'], 'md_variant_filter_%d' % fs_, 'mpd_f', 'harness/mpd.c', 'h_md_variant_filter', defs=['UNIT_H="mpd_f.h"', 'NB=6', 'FSHAPE=%d' % fs_], unwind=9, cap=400, hunwind=20, fs='none', objbits=12,
        desc='MsgPack parseVariant under the filter %s vs the unfiltered run on the same bytes (non-container codes): identity for true; otherwise value stays null, same code and consumption, no allocation' % nm,
        bound='every non-container first byte x all continuations up to 6 bytes x every truncation length'))
UNITS += [Unit('mpd_fcont', 'wrappers/mpd.cpp', defs=MPD, cuts={'CUT_MPV?': r'MsgPackDeserializerI7VReaderE12parseVariantINS1_14AllowAllFilterE', 'CUT_MPVF': r'MsgPackDeserializerI7VReaderE12parseVariantINS0_21DeserializationOption6FilterE',
    'CUT_ADD_ELEMENT': r'9ArrayData10addElementEPNS1_15ResourceManagerE$', 'CUT_ADD_MEMBER': r'10ObjectData9addMemberIPNS1_10StringNodeEEEPNS1_11VariantDataET_PNS1_15ResourceManagerE$', 'CUT_RKEY': r'MsgPackDeserializerI7VReaderE7readKeyEv'})]
for ob_, nm, shapes in [(1, 'object', (0, 1, 2, 3, 4, 5)), (0, 'array', (0, 1, 3, 4, 5, 6))]:
    for fs_ in shapes:
        OBS.append(Ob(['C11', 'C03', 'C15'], 'md_read_%s_filter_%d' % (nm, fs_), 'mpd_fcont', 'harness/mpd_cont.c', 'h_md_container_filter', defs=['UNIT_H="mpd_fcont.h"', 'OBJECT=%d' % ob_, 'FSHAPE=%d' % fs_], unwind=6, cap=400, hunwind=8, fs='none', objbits=12,
            desc='MsgPack read%s under filter shape %d (true / {"k":true} / {"x":true} / {} / {"*":true} / [true] / []): container created iff admitted, null destination exactly for discarded entries, slots only for kept ones, limit-1, count honoured' % (nm.capitalize(), fs_),
            bound='announced count 0..3, all limits, every child / key / allocation behaviour allowed by the contracts'))

# ---- ARDUINOJSON_USE_DOUBLE=0: float64 payloads are rounded to the nearest float (not truncated, no flush of float subnormals)
UNITS += [Unit('mpd_nd', 'wrappers/mpd.cpp', defs=MPD + ['ARDUINOJSON_USE_DOUBLE=0'], cuts={'CUT_RA': r'MsgPackDeserializerI7VReaderE9readArrayINS1_14AllowAllFilterE', 'CUT_RO': r'MsgPackDeserializerI7VReaderE10readObjectINS1_14AllowAllFilterE'})]
OBS.append(Ob(['C09'], 'md_variant_floats_nodouble', 'mpd_nd', 'harness/mpd.c', 'h_md_variant', defs=['UNIT_H="mpd_nd.h"', 'NB=10', 'FAMILY=2', 'NODOUBLE=1'], unwind=13, cap=600, hunwind=20, fs='none',
    desc='ARDUINOJSON_USE_DOUBLE=0 build: float32 exact, float64 == (float)value rounded to nearest, truncation => IncompleteInput', bound='0xCA/0xCB x all payloads x every truncation length'))
