from vfw import Unit, Ob
MPD = ['ARENA_N=3', 'ARENA_CHUNK=64', 'ARDUINOJSON_POOL_CAPACITY=4', 'ARDUINOJSON_INITIAL_POOL_COUNT=2']
UNITS = [Unit('mpd', 'wrappers/mpd.cpp', defs=MPD, cuts={'CUT_RA': r'MsgPackDeserializerI7VReaderE9readArrayINS1_14AllowAllFilterE', 'CUT_RO': r'MsgPackDeserializerI7VReaderE10readObjectINS1_14AllowAllFilterE'})]
U = ['UNIT_H="mpd.h"']
OBS = []
for fam, nm, nb, what in [(0, 'fix_nil_bool', 3, 'fixint / nil / bool / 0xC1'), (1, 'ints', 10, 'uint8..64 / int8..64'), (2, 'floats', 10, 'float32 / float64'),
                          (3, 'str', 8, 'fixstr / str8 / str16 / str32'), (4, 'bin_ext', 9, 'bin8-32 / ext8-32 / fixext1-16'), (5, 'containers', 6, 'fixarray / array16-32 / fixmap / map16-32 headers')]:
    OBS.append(Ob(['C09', 'C03', 'C15', 'C16', 'C06'], 'md_variant_' + nm, 'mpd', 'harness/mpd.c', 'h_md_variant', defs=U + ['NB=%d' % nb, 'FAMILY=%d' % fam], unwind=nb + 3, cap=400, hunwind=20, fs='none',
        desc='MsgPackDeserializer::parseVariant == reference decoder on the %s codes: value/width/sign, bit-exact floats, bytes verbatim, truncation at every position => IncompleteInput, container headers hand count and unchanged limit to the (cut) readers' % what,
        bound='every code of the family x all continuations up to %d bytes x every truncation length; arena allocator' % nb))
UNITS += [Unit('mpd_dd', 'wrappers/mpd.cpp', defs=['ARENA_N=4', 'ARENA_CHUNK=64', 'ARDUINOJSON_POOL_CAPACITY=4', 'ARDUINOJSON_INITIAL_POOL_COUNT=2'])]
for pl in (2, 5):
    OBS.append(Ob(['C06', 'C14', 'C09'], 'dedup_msgpack_pre%d' % pl, 'mpd_dd', 'harness/dedup.c', 'h_dedup', defs=['UNIT_H="mpd_dd.h"', 'MSGPACK=1', 'PRELEN=%d' % pl], unwind=14, cap=300, hunwind=12, fs=512,
        desc='deserializing fixstr "ab\\0cd" into a pool holding one string of %d symbolic bytes: full length kept, shared iff identical, reference count exact (StringBuffer::save / StringPool)' % pl,
        bound='all values of the %d bytes of the pre-existing string' % pl))
