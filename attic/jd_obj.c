/* C01/C14 [K2]: duplicate-key handling of parseObject. Token skeleton {K:v,K:v}; the key scanner (parseKey) and the value
 * parser (parseVariant) are cut: the parseKey stub consumes the placeholder byte K and leaves a key of SYMBOLIC bytes
 * (all 256 values, NUL included - such keys arise from \u0000) in the real StringBuilder; everything else is the real code
 * (getMember, StringBuilder::save, StringPool, addMember, clear). Expected: the second key reuses the first member iff
 * the two keys are byte-identical (same length and bytes); otherwise a second member is appended, order kept. */
#include "jdh.h"
#include UNIT_H
struct ObjOut { uint32_t count; uint32_t klen[4]; uint8_t key[4][4]; uint32_t isnull[4]; int32_t tag[4]; };
static unsigned g_calls, g_keys; static uint8_t g_key[2][3]; static unsigned g_klen[2];
uint32_t CUT_PV_ALL(struct S_AJ__detail__JsonDeserializer* d, struct S_AJ__detail__VariantData* v, uint8_t limit) {
  g_calls++;
  w_var_mark(v, (int)g_calls);      /* the child's value: 1 for the first call, 2 for the second */
  w_jd_child_effect(d, 0, 0);        /* consumes the latched one-byte value 'v' of the skeleton */
  return OK;
}
uint32_t CUT_SV(struct S_AJ__detail__JsonDeserializer* d, uint8_t limit) { VASSERT(0, "nothing is skipped without a filter"); return OK; }
/* the recursive part of VariantData::clear is cut: the members hold integers here, so it must not be reached */
void CUT_COLL_CLEAR(struct S_AJ__detail__CollectionData* c, struct S_AJ__detail__ResourceManager* rm) { VASSERT(0, "CollectionData::clear is not reached: the re-used member holds a scalar"); }
uint32_t CUT_PKEY(struct S_AJ__detail__JsonDeserializer* d) {
  unsigned k = g_keys < 1 ? g_keys : 1; g_keys++;
  w_jd_set_key(d, g_key[k], g_klen[k]);
  w_jd_child_effect(d, 0, 0);        /* consumes the latched placeholder byte K */
  return OK;
}
#ifndef SK
#define SK 0
#endif
void h_dupkey(void) {
  const unsigned L1[4] = {3, 1, 2, 3}, L2[4] = {1, 3, 2, 3};
  g_klen[0] = L1[SK]; g_klen[1] = L2[SK];
  for (unsigned i = 0; i < 3; i++) { g_key[0][i] = i < g_klen[0] ? vin_u8() : 0; g_key[1][i] = i < g_klen[1] ? vin_u8() : 0; }
  uint8_t in[] = {'{', 'K', ':', 'v', ',', 'K', ':', 'v', '}'};
  struct Out o = {0}; struct ObjOut oo; memset(&oo, 0, sizeof oo);
  w_parse_object(in, sizeof in, 0, 10, &o, &oo);
  VOBS(o.code); VOBS(oo.count); VOBS(oo.klen[0]); VOBS(oo.klen[1]); VOBS(oo.tag[0]); VOBS(oo.tag[1]);
  VASSERT(o.code == OK && o.consumed == sizeof in, "the skeleton is a valid object, fully consumed");
  VASSERT(g_calls == 2 && g_keys == 2, "two keys and two values parsed");
  int same = g_klen[0] == g_klen[1] && g_key[0][0] == g_key[1][0] && g_key[0][1] == g_key[1][1] && g_key[0][2] == g_key[1][2];
  if (same) {
    VASSERT(oo.count == 1, "a repeated key reuses the existing member");
    VASSERT(oo.tag[0] == 2, "the last occurrence wins");
    VWITNESS("same");
  } else {
    VASSERT(oo.count == 2, "keys that differ (in any byte or in length, NUL included) give two members");
    VASSERT(oo.klen[0] == g_klen[0] && oo.klen[1] == g_klen[1], "member order and key lengths are those of the text");
    VASSERT(oo.tag[0] == 1 && oo.tag[1] == 2, "each member keeps its own value");
    for (unsigned i = 0; i < 3; i++) { if (i < g_klen[0]) VASSERT(oo.key[0][i] == g_key[0][i], "first key bytes"); if (i < g_klen[1]) VASSERT(oo.key[1][i] == g_key[1][i], "second key bytes"); }
    VWITNESS("different");
  }
}
