/* C01/C03/C10/C16/C17 [K2]: JsonDeserializer::parseQuotedString / skipQuotedString on ALL inputs of NB bytes after the
 * opening quote, against a reference unescaper written here (state machine over the input positions). */
#include "jdh.h"
#include UNIT_H
#ifndef NB
#define NB 5
#endif
#ifndef PREFIX_U   /* PREFIX_U=1: the first two bytes after the quote are fixed to "\u" (unicode coverage at low cost) */
#define PREFIX_U 0
#endif
#define TOT (NB + 1)
#ifndef NODECODE   /* 1: unit built with ARDUINOJSON_DECODE_UNICODE=0 - a \\u escape is kept verbatim (backslash, u, the following bytes as ordinary characters) */
#define NODECODE 0
#endif
#ifndef HAVE_POS   /* 0 for the library's own readers, whose position is not observable */
#define HAVE_POS 1
#endif
enum { S_NORMAL, S_BS, S_HEX };

struct Ref { int code; unsigned consumed; unsigned olen; uint8_t o[4 * NB + 4]; int paired_ok; };

static void reference(const uint8_t* in, struct Ref* r) {
  uint8_t q = in[0]; int st = S_NORMAL; unsigned hexn = 0; uint32_t unit = 0; int have_high = 0; uint32_t high = 0;
  r->code = -1; r->olen = 0; r->paired_ok = 1; r->consumed = 0;
  for (unsigned i = 1; i <= TOT; i++) {
    if (r->code >= 0) continue;
    uint8_t c = i < TOT ? in[i] : 0;   /* end of input reads as NUL */
    if (st == S_NORMAL) {
      if (c == q) { r->code = OK; r->consumed = i + 1; if (have_high) r->paired_ok = 0; }
      else if (c == 0) { r->code = INCOMPLETE; r->consumed = i + 1; }
      else if (c == '\\') st = S_BS;
      else { if (have_high) { r->paired_ok = 0; have_high = 0; } r->o[r->olen++] = c; }
    } else if (st == S_BS) {
      if (c == 0) { r->code = INCOMPLETE; r->consumed = i + 1; }
      else if (c == 'u' && NODECODE) { r->o[r->olen++] = '\\'; r->o[r->olen++] = 'u'; st = S_NORMAL; }
      else if (c == 'u') { st = S_HEX; hexn = 0; unit = 0; }
      else { uint8_t u = ref_unescape(c); if (!u) { r->code = INVALID; r->consumed = i + 1; } else { if (have_high) { r->paired_ok = 0; have_high = 0; } r->o[r->olen++] = u; st = S_NORMAL; } }
    } else {
      if (c == 0) { r->code = INCOMPLETE; r->consumed = i + 1; }
      else if (!is_hex(c)) { r->code = INVALID; r->consumed = i + 1; }
      else {
        unit = (unit << 4) | hexval(c); hexn++;
        if (hexn == 4) {
          st = S_NORMAL;
          if (unit >= 0xD800 && unit < 0xDC00) { if (have_high) r->paired_ok = 0; have_high = 1; high = unit; }
          else if (unit >= 0xDC00 && unit < 0xE000) {
            if (!have_high) { r->paired_ok = 0; r->olen += 4; /* unspecified bytes */ }
            else { uint32_t cp = 0x10000 + (((high & 0x3FF) << 10) | (unit & 0x3FF)); r->olen += ref_utf8(cp, r->o + r->olen); have_high = 0; }
          } else { if (have_high) { r->paired_ok = 0; have_high = 0; } r->olen += ref_utf8(unit, r->o + r->olen); }
        }
      }
    }
  }
}

static void mk_input(uint8_t* in) {
  in[0] = (vin_u8() & 1) ? '"' : '\'';
  for (unsigned i = 1; i < TOT; i++) in[i] = vin_u8();
#if PREFIX_U
  in[1] = '\\'; in[2] = 'u';
#endif
}

void h_pqs(void) {
  uint8_t in[TOT + 1]; mk_input(in); in[TOT] = 0;   /* exactly sized: TOT bytes + the terminator a zero-terminated reader stops at */
  uint8_t out[4 * NB + 8]; memset(out, 0xA5, sizeof out); uint32_t outlen = 0; struct Out o = {0};
  w_pqs(in, TOT, 0, out, sizeof out, &outlen, &o);
  VOBS(o.code); VOBS(o.consumed); VOBS(outlen); VOBSB(out, sizeof out);
  struct Ref r; reference(in, &r);
  VASSERT(o.code == OK || o.code == INCOMPLETE || o.code == INVALID, "documented code");
  VASSERT((int)o.code == r.code, "Ok / IncompleteInput / InvalidInput exactly as the reference unescaper");
  if (r.code == OK) {
    if (HAVE_POS) VASSERT(o.consumed == r.consumed, "consumes exactly the bytes of the string token");
    VASSERT(o.latched == 0, "closing quote consumed without look-ahead");
    if (r.paired_ok) {
      VASSERT(outlen == r.olen, "decoded length");
      for (unsigned i = 0; i < 4 * NB; i++) if (i < r.olen) VASSERT(out[i] == r.o[i], "decoded bytes (escapes, \\uXXXX -> UTF-8)");
      VASSERT(out[r.olen] == 0, "NUL-terminated exactly at size()");
      VWITNESS("ok");
    } else { VASSERT(outlen <= 4 * NB, "unpaired surrogate: bounded output, no crash"); VWITNESS("unpaired"); }
  } else {
    VASSERT(o.consumed <= TOT, "never reads beyond the input");
    if (r.code == INCOMPLETE) VWITNESS("incomplete"); else VWITNESS("invalid");
  }
}

/* skipQuotedString must accept/consume consistently with the parser on every input the parser accepts,
 * and never read beyond the input */
void h_sqs(void) {
  uint8_t in[TOT + 1]; mk_input(in); in[TOT] = 0;   /* exactly sized: TOT bytes + the terminator a zero-terminated reader stops at */
  struct Out o = {0}; w_sqs(in, TOT, &o); VOBS(o.code); VOBS(o.consumed);
  struct Ref r; reference(in, &r);
  VASSERT(o.code == OK || o.code == INCOMPLETE, "skip: Ok or IncompleteInput only");
  if (r.code == OK) { VASSERT(o.code == OK && (!HAVE_POS || o.consumed == r.consumed) && o.latched == 0, "skipping consumes exactly the token the parser would"); VWITNESS("ok"); }
  if (r.code == INCOMPLETE) { VASSERT(o.code == INCOMPLETE, "unterminated string is never skipped as Ok"); VWITNESS("incomplete"); }
  VASSERT(o.consumed <= TOT + 1, "bounded");
}

/* C03: the result depends only on the bytes - the scanner is run twice on the same input (two deserializer objects);
 * any dependence on uninitialised or leftover state makes the two results differ for some input */
void h_pqs_twice(void) {
  uint8_t in[TOT + 1]; mk_input(in); in[TOT] = 0;
  uint8_t out1[4 * NB + 8], out2[4 * NB + 8]; memset(out1, 0xA5, sizeof out1); memset(out2, 0xA5, sizeof out2); uint32_t l1 = 0, l2 = 0; struct Out o1 = {0}, o2 = {0};
  w_pqs(in, TOT, 0, out1, sizeof out1, &l1, &o1);
  w_pqs(in, TOT, 0, out2, sizeof out2, &l2, &o2);
  VOBS(o1.code); VOBS(l1); VOBSB(out1, sizeof out1);
  VASSERT(o1.code == o2.code && l1 == l2 && o1.consumed == o2.consumed, "same bytes, same code / length / consumption");
  for (unsigned i = 0; i < sizeof out1; i++) VASSERT(out1[i] == out2[i], "same bytes, same decoded string (unpaired surrogates included)");
  if (o1.code == OK) VWITNESS("ok"); else VWITNESS("error");
}
