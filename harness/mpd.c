/* C09/C03/C15/C16 [K2]: MsgPackDeserializer::parseVariant on ALL first bytes and all continuations up to NB bytes, input
 * truncated at every position; readArray/readObject cut. Reference decoder written here. */
#include "vh.h"
#include UNIT_H
enum { OK = 0, EMPTY = 1, INCOMPLETE = 2, INVALID = 3, NOMEM = 4, TOODEEP = 5 };
#ifndef NB
#define NB 10
#endif
static unsigned g_cont_calls, g_cont_kind; static uint64_t g_cont_size; static uint8_t g_cont_limit; static unsigned g_cont_ret;
uint32_t CUT_RA(struct S_AJ__detail__MsgPackDeserializer* d, struct S_AJ__detail__VariantData* v, uint64_t n, uint8_t limit) { g_cont_calls++; g_cont_kind = 9; g_cont_size = n; g_cont_limit = limit; g_cont_ret = vin_u8() % 6; return g_cont_ret; }
uint32_t CUT_RO(struct S_AJ__detail__MsgPackDeserializer* d, struct S_AJ__detail__VariantData* v, uint64_t n, uint8_t limit) { g_cont_calls++; g_cont_kind = 10; g_cont_size = n; g_cont_limit = limit; g_cont_ret = vin_u8() % 6; return g_cont_ret; }
static uint64_t be(const uint8_t* p, unsigned n) { uint64_t v = 0; for (unsigned i = 0; i < 8; i++) if (i < n) v = (v << 8) | p[i]; return v; }
#define MAXSTR (w_maxstr())   /* longest string one arena chunk can hold, computed by the library: chunk - sizeofString(0) */
void h_md_variant(void) {
  uint8_t in[NB]; for (unsigned i = 0; i < NB; i++) in[i] = vin_u8();
  uint32_t n = vin_u32(); VASSUME(n <= NB); uint8_t L = vin_u8();
#ifdef FAMILY   /* one obligation per family of format codes (the union of the families is all 256 codes) */
#if FAMILY == 2    /* the two narrow families are drawn constructively (onto: every member is reached), so that the native witness search does not depend on luck */
  in[0] = (uint8_t)(0xca + (in[0] & 1));
#elif FAMILY == 1
  in[0] = (uint8_t)(0xcc + (in[0] & 7));
#endif
  { uint8_t c0 = in[0];
    int fam = (c0 <= 0x7f || c0 >= 0xe0 || (c0 >= 0xc0 && c0 <= 0xc3)) ? 0 : (c0 >= 0xcc && c0 <= 0xd3) ? 1 : (c0 == 0xca || c0 == 0xcb) ? 2 :
              ((c0 & 0xe0) == 0xa0 || (c0 >= 0xd9 && c0 <= 0xdb)) ? 3 : ((c0 >= 0xc4 && c0 <= 0xc9) || (c0 >= 0xd4 && c0 <= 0xd8)) ? 4 : 5;
    VASSUME(fam == FAMILY); }
#endif
  struct S_MOut o; memset(&o, 0, sizeof o);
  w_md_parse_variant(in, n, 0, L, &o);
  /* S_MOut: f0 code f1 consumed f2 kind f3 len f4 found f5 overflowed f6 max_request f7 bits f8 bytes[16] */
  VOBS(o.f0); VOBS(o.f1); VOBS(o.f2); VOBS(o.f3); VOBS(o.f7);
  VASSERT(o.f0 <= 5 && o.f1 <= n, "documented code; never reads beyond the input");
  if (n == 0) { VASSERT(o.f0 == INCOMPLETE && o.f4 == 0, "no byte at all: IncompleteInput, nothing found"); VWITNESS("empty"); return; }
  uint8_t c = in[0]; unsigned hdr = 1, payload = 0; int kind = -1; uint64_t bits = 0; int is_container = 0, is_str = 0, is_raw = 0; unsigned sizeBytes = 0; uint64_t cnt = 0;
  if (c <= 0x7f) { kind = 3; bits = c; } else if (c >= 0xe0) { kind = 3; bits = (uint64_t)(int64_t)(int8_t)c; }
  else if (c == 0xc0) kind = 0; else if (c == 0xc1) kind = -2; else if (c == 0xc2) kind = 1; else if (c == 0xc3) kind = 2;
  else if (c >= 0xcc && c <= 0xcf) { payload = 1u << (c - 0xcc); kind = 4; }
  else if (c >= 0xd0 && c <= 0xd3) { payload = 1u << (c - 0xd0); kind = 3; }
  else if (c == 0xca) { payload = 4; kind = 5; } else if (c == 0xcb) { payload = 8; kind = 6; }
  else if ((c & 0xe0) == 0xa0) { is_str = 1; cnt = c & 0x1f; }
  else if (c == 0xd9 || c == 0xda || c == 0xdb) { is_str = 1; sizeBytes = 1u << (c - 0xd9); }
  else if (c == 0xc4 || c == 0xc5 || c == 0xc6) { is_raw = 1; sizeBytes = 1u << (c - 0xc4); }
  else if (c == 0xc7 || c == 0xc8 || c == 0xc9) { is_raw = 2; sizeBytes = 1u << (c - 0xc7); }
  else if (c >= 0xd4 && c <= 0xd8) { is_raw = 2; cnt = 1u << (c - 0xd4); }
  else if ((c & 0xf0) == 0x90) { is_container = 9; cnt = c & 0x0f; } else if (c == 0xdc || c == 0xdd) { is_container = 9; sizeBytes = c == 0xdc ? 2 : 4; }
  else if ((c & 0xf0) == 0x80) { is_container = 10; cnt = c & 0x0f; } else if (c == 0xde || c == 0xdf) { is_container = 10; sizeBytes = c == 0xde ? 2 : 4; }
  VASSERT(kind != -1 || is_str || is_raw || is_container, "every first byte is classified by the reference decoder");
  if (kind == -2) { VASSERT(o.f0 == INVALID, "0xC1 is never used: InvalidInput"); VWITNESS("c1"); return; }
  if (sizeBytes) { if (1 + sizeBytes > n) { VASSERT(o.f0 == INCOMPLETE, "truncated length field: IncompleteInput"); VWITNESS("trunc-len"); return; } cnt = be(in + 1, sizeBytes); hdr = 1 + sizeBytes; }
  if (is_container) {
    VASSERT(g_cont_calls == 1 && g_cont_kind == (unsigned)is_container && g_cont_size == cnt && g_cont_limit == L, "array/map header: the container reader gets the announced count and the unchanged nesting limit");
    VASSERT(o.f0 == g_cont_ret && o.f1 == hdr, "container result propagated; only the header consumed here"); VWITNESS("container"); return;
  }
  VASSERT(g_cont_calls == 0, "no container reader for scalars");
  if (is_str || is_raw) {
    uint64_t plen = cnt + (is_raw == 2 ? 1 : 0);   /* ext carries one type byte */
    uint64_t stored = is_str ? plen : hdr + plen;  /* bin/ext are retained with their header */
    if (stored > MAXSTR) { VASSERT(o.f0 == NOMEM || o.f0 == INCOMPLETE, "a length beyond the available memory is refused (NoMemory) or found truncated, never Ok"); VWITNESS("huge"); return; }
    if (hdr + plen > n) { VASSERT(o.f0 == INCOMPLETE, "truncated payload: IncompleteInput"); VWITNESS("trunc-str"); return; }
    VASSERT(o.f0 == OK && o.f1 == hdr + plen, "well-formed str/bin/ext: Ok, exactly its bytes consumed");
    VASSERT(o.f2 == (is_str ? 7u : 8u) && o.f3 == stored, "stored as string / retained raw with the right length");
    for (unsigned i = 0; i < NB; i++) if (i < stored) VASSERT(o.f8.e[i] == (is_str ? in[hdr + i] : in[i]), "bytes verbatim (raw values keep their header so that they re-serialize identically)");
    if (is_str) { VASSERT(o.f8.e[stored < 16 ? stored : 15] == 0 || stored >= 16, "string NUL-terminated at size()"); VWITNESS("str"); } else VWITNESS("raw");
    return;
  }
  if (hdr + payload > n) { VASSERT(o.f0 == INCOMPLETE, "truncated scalar: IncompleteInput"); VWITNESS("trunc-scalar"); return; }
  VASSERT(o.f0 == OK && o.f1 == hdr + payload, "well-formed scalar: Ok, exactly its bytes consumed");
  if (payload && kind == 4) bits = be(in + 1, payload);
  if (payload && kind == 3) { uint64_t r = be(in + 1, payload); bits = payload == 1 ? (uint64_t)(int64_t)(int8_t)r : payload == 2 ? (uint64_t)(int64_t)(int16_t)r : payload == 4 ? (uint64_t)(int64_t)(int32_t)r : r; }
  if (kind == 0 || kind == 1 || kind == 2) { VASSERT(o.f2 == (unsigned)kind, "nil / false / true"); VWITNESS("simple"); }
  else if (kind == 3) { VASSERT((o.f2 == 3 && o.f7 == bits) || (o.f2 == 4 && (int64_t)bits >= 0 && o.f7 == bits), "integer: exact value and sign for every width"); if (payload == 8) VWITNESS("i64"); else VWITNESS("int"); }
  else if (kind == 4) { VASSERT((o.f2 == 4 || o.f2 == 3) && o.f7 == bits && (o.f2 == 4 || (int64_t)bits >= 0), "unsigned integer: exact value for every width"); if (payload == 8) VWITNESS("u64"); else VWITNESS("uint"); }
  else if (kind == 5) { float f = vin_unbits32((uint32_t)be(in + 1, 4)); double d = (double)f; double got; memcpy(&got, &o.f7, 8); VASSERT(o.f2 == 5 && ((f != f) ? (got != got) : vbits64(got) == vbits64(d)), "float32: exact value"); VWITNESS("f32"); }
  else if (kind == 6) { uint64_t b = be(in + 1, 8); double d; memcpy(&d, &b, 8); double got; memcpy(&got, &o.f7, 8);
#ifdef NODOUBLE   /* ARDUINOJSON_USE_DOUBLE=0: the value is ROUNDED (to nearest) to float */
    { double e = (double)(float)d; VASSERT(o.f2 == 5 && ((d != d) ? (got != got) : vbits64(got) == vbits64(e)), "float64 with doubles disabled: the nearest float"); }
#else
    VASSERT(o.f2 == 5 && ((d != d) ? (got != got) : vbits64(got) == b), "float64: exact value");
#endif
 VWITNESS("f64"); }
}

/* ---- readKey: only the str formats are keys; length decoding for fixstr / str8 / str16 / str32 */
void h_md_key(void) {
  uint8_t in[NB]; for (unsigned i = 0; i < NB; i++) in[i] = vin_u8();
  uint32_t n = vin_u32(); VASSUME(n <= NB);
  struct S_MOut o; memset(&o, 0, sizeof o);
  w_md_read_key(in, n, &o);
  VOBS(o.f0); VOBS(o.f1); VOBS(o.f3);
  VASSERT(o.f0 <= 5 && o.f1 <= n, "documented code; never reads beyond the input");
  if (n == 0) { VASSERT(o.f0 == INCOMPLETE, "no byte: IncompleteInput"); return; }
  uint8_t c = in[0]; unsigned sizeBytes = 0; uint64_t len = 0; int isstr = 0;
  if ((c & 0xe0) == 0xa0) { isstr = 1; len = c & 0x1f; } else if (c == 0xd9 || c == 0xda || c == 0xdb) { isstr = 1; sizeBytes = 1u << (c - 0xd9); }
  if (!isstr) { VASSERT(o.f0 == INVALID, "a map key that is not a string: InvalidInput"); VWITNESS("nonstring"); return; }
  if (1 + sizeBytes > n) { VASSERT(o.f0 == INCOMPLETE, "truncated length: IncompleteInput"); return; }
  if (sizeBytes) len = be(in + 1, sizeBytes);
  unsigned hdr = 1 + sizeBytes;
  if (len > MAXSTR) { VASSERT(o.f0 == NOMEM || o.f0 == INCOMPLETE, "a key longer than the available memory is refused, never Ok"); VWITNESS("huge"); return; }
  if (hdr + len > n) { VASSERT(o.f0 == INCOMPLETE, "truncated key: IncompleteInput"); VWITNESS("trunc"); return; }
  VASSERT(o.f0 == OK && o.f1 == hdr + len, "well-formed key: Ok, exactly its bytes consumed");
  VASSERT(o.f3 == len, "key length is the announced one (all 5 bits of a fixstr header)");
  for (unsigned i = 0; i < 16; i++) if (i < len) VASSERT(o.f8.e[i] == in[hdr + i], "key bytes verbatim (first 16 observed)");
  if (c >= 0xb0 && c <= 0xbf) VWITNESS("fixstr16+"); else VWITNESS("ok");
}

/* ---- C11: parseVariant<Filter> on scalars / strings / bin / ext. FSHAPE 0 true, 1 false, 2 {} (object filter), 3 [] (array
 * filter), 4 null. A value is stored only under `true`; under an object or array filter a scalar stays null (its kind is
 * not admitted); the bytes consumed and the code are those of the unfiltered run; nothing is allocated for dropped values. */
#ifdef CUT_RAF
static unsigned g_fcont;
uint32_t CUT_RAF(struct S_AJ__detail__MsgPackDeserializer* d, struct S_AJ__detail__VariantData* v, uint64_t n, struct S_AJ__detail__VariantData* fd, struct S_AJ__detail__ResourceManager* frm, uint8_t limit) { g_fcont++; return OK; }
uint32_t CUT_ROF(struct S_AJ__detail__MsgPackDeserializer* d, struct S_AJ__detail__VariantData* v, uint64_t n, struct S_AJ__detail__VariantData* fd, struct S_AJ__detail__ResourceManager* frm, uint8_t limit) { g_fcont++; return OK; }
#ifndef FSHAPE
#define FSHAPE 2
#endif
void h_md_variant_filter(void) {
  uint8_t in[NB]; for (unsigned i = 0; i < NB; i++) in[i] = vin_u8();
  uint32_t n = vin_u32(); VASSUME(n <= NB && n >= 1);
  uint8_t c = in[0];
  /* scalars, strings, bin, ext only (containers are handed to the cut readers) */
  int container = (c & 0xf0) == 0x90 || (c & 0xf0) == 0x80 || c == 0xdc || c == 0xdd || c == 0xde || c == 0xdf;
  VASSUME(!container);
  struct S_MOut f, u; memset(&f, 0, sizeof f); memset(&u, 0, sizeof u);
  w_md_parse_variant_f(in, n, FSHAPE, &f);
  w_md_parse_variant(in, n, 0, 5, &u);       /* the unfiltered run */
  VOBS(f.f0); VOBS(f.f1); VOBS(f.f2); VOBS(u.f0); VOBS(u.f1); VOBS(u.f2);
  if (FSHAPE == 0) { VASSERT(f.f0 == u.f0 && f.f1 == u.f1 && f.f2 == u.f2 && f.f3 == u.f3 && f.f7 == u.f7, "the filter true is the identity"); VWITNESS("identity"); return; }
  VASSERT(f.f2 == 0, "a scalar / string / bin / ext is stored only under the filter true: under false, null, an object filter or an array filter the value stays null");
  if (u.f0 == OK) { VASSERT(f.f0 == OK && f.f1 == u.f1, "an input the unfiltered run accepts is accepted with the filter, consuming the same bytes"); VWITNESS("ok"); }
  if (u.f0 == INCOMPLETE || u.f0 == INVALID) VASSERT(f.f0 == u.f0, "truncated / invalid input is classified the same way");
  VASSERT(f.f6 == 0, "nothing is allocated for a dropped value: filtering never requests more memory than the unfiltered run");
}
#endif
