/* C12/C01/C10/C13 [K1]: parseNumber with the floating-point power-of-ten scaling (make_float) cut.
 * (1) h_pnum_int: every digit string of a fixed length (optional '-'): exact integer kind and value on [-2^63, 2^64),
 *     a floating kind otherwise.
 * (2) h_pnum_scan: every string of <= NB bytes: accepted iff it matches the lenient number grammar; the scaled pair
 *     (mantissa, decimal exponent) handed to make_float denotes exactly the literal; the single-precision path is taken
 *     only when the value fits a float; exponent overflow gives +-inf / +-0 - never a finite value of the wrong magnitude. */
#include "vh.h"
#ifdef UNIT_H
#include UNIT_H
#else
#include "numcut.h"
#endif
#ifndef NANINF
#define NANINF 0
#endif
typedef unsigned __int128 u128;
static unsigned g_mf_calls, g_mf_kind; static double g_mf_m; static int32_t g_mf_e; static uint64_t g_mf_ret;
/* contract stubs of make_float(m, e) = m x 10^e rounded to the type: the result is an arbitrary FINITE value, except that
 * the single-precision variant returns +infinity when m x 10^e exceeds FLT_MAX (3.4028234e38) - the only fact about the
 * result that parseNumber may depend on. */
static int flt_overflows(double m, int e) {   /* m integer < 2^24 */
  if (m < 1.0) return 0;
  if (e > 38) return 1;
  if (e <= 31) return 0;
  uint64_t p = 1; for (int j = 0; j < 8; j++) if (j < e - 31) p *= 10;
  return (uint64_t)m * p > 34028234ULL;
}
static unsigned g_mf_first_ovf;
float CUT_MF_F(float m, uint32_t e) { g_mf_calls++; g_mf_kind = 1; g_mf_m = (double)m; g_mf_e = (int32_t)e; float r = vin_f32(); VASSUME(r == r && r - r == 0.0f);
  if (flt_overflows((double)m, (int32_t)e)) { r = __builtin_inff(); if (g_mf_calls == 1) g_mf_first_ovf = 1; } g_mf_ret = vbits32(r); return r; }
double CUT_MF_D(double m, uint32_t e) { g_mf_calls++; g_mf_kind = 4; g_mf_m = m; g_mf_e = (int32_t)e; double r = vin_f64(); VASSUME(r == r && r - r == 0.0); g_mf_ret = vbits64(r); return r; }

#ifndef LEN
#define LEN 20
#endif
#ifndef NEG
#define NEG 0
#endif
void h_pnum_int(void) {
  uint8_t buf[LEN + 2]; unsigned pos = 0;
  if (NEG) buf[pos++] = '-';
  u128 val = 0; int big = 0;
  for (unsigned i = 0; i < LEN; i++) {
    uint8_t c = vin_u8(); VASSUME(c >= '0' && c <= '9'); buf[pos++] = c;
    if (val >> 68) big = 1; else val = val * 10 + (unsigned)(c - '0');
  }
  buf[pos] = 0;
  uint64_t u = 0, i64 = 0; double d = 0;
  int k = (int)w_parse_kind(buf, &u, &i64, &d); VOBS(k); VOBS(u); VOBS(i64);
  int fits_u = !big && val <= (u128)UINT64_MAX;
  int fits_s = !big && val <= ((u128)1 << 63);
  if (!NEG) {
    if (fits_u) { VASSERT(k == 3, "non-negative integer literal below 2^64 is an unsigned integer"); VASSERT(u == (uint64_t)val, "exact value"); VWITNESS("exact"); }
    else { VASSERT(k == 1 || k == 4, "integer literal >= 2^64 becomes a floating kind"); VWITNESS("big"); }
  } else {
    if (fits_s) { VASSERT(k == 2, "negative integer literal >= -2^63 is a signed integer"); VASSERT(i64 == (uint64_t)0 - (uint64_t)val, "exact value"); VWITNESS("exact"); }
    else { VASSERT(k == 1 || k == 4, "integer literal < -2^63 becomes a floating kind"); VWITNESS("big"); }
  }
#if LEN >= 20
  if (k == 1 || k == 4) {
    /* never a wrong magnitude: (number of decimal digits of the mantissa) + exponent == number of digits of the literal
       (leading zeros not counted). Implied by  m*10^e <= val < (m+1)*10^e  and much cheaper for the solver. */
    VASSERT(g_mf_calls >= 1 && g_mf_calls <= 2, "scaling invoked (a second, double-precision attempt is allowed)");
    if (!big) {
      uint64_t m = (uint64_t)g_mf_m; VASSERT((double)m == g_mf_m && m <= (1ULL << 53), "mantissa is an integer below 2^53");
      static const uint64_t P10[20] = {1ULL, 10ULL, 100ULL, 1000ULL, 10000ULL, 100000ULL, 1000000ULL, 10000000ULL, 100000000ULL, 1000000000ULL, 10000000000ULL, 100000000000ULL, 1000000000000ULL,
                                        10000000000000ULL, 100000000000000ULL, 1000000000000000ULL, 10000000000000000ULL, 100000000000000000ULL, 1000000000000000000ULL, 10000000000000000000ULL};
      int dm = 0; for (int j = 0; j < 20; j++) if (m >= P10[j]) dm = j + 1;
      int dv = 0; u128 pw = 1; for (int j = 0; j < LEN + 1; j++) { if (val >= pw) dv = j + 1; pw *= 10; }
      VASSERT(dm + g_mf_e == dv, "digits(mantissa) + exponent == digits(literal): never a value of the wrong magnitude");
    }
  }
#endif
}

#ifndef NB
#define NB 5
#endif
static int isdig(uint8_t c) { return c >= '0' && c <= '9'; }
void h_pnum_scan(void) {
  uint8_t s[NB + 1]; for (unsigned i = 0; i < NB; i++) s[i] = vin_u8(); s[NB] = 0;
  /* reference scanner: grammar  sign? (digit* ('.' digit*)?) with at least a digit or dot first, ([eE] sign? digit*)? end */
  unsigned i = 0; int neg = 0, valid = 1, isint = 1; uint64_t M = 0; int fr = 0; int ex = 0, exneg = 0; unsigned exdigits = 0;
  if (s[i] == '-') { neg = 1; i++; } else if (s[i] == '+') i++;
  if (NANINF && (s[i] == 'n' || s[i] == 'N' || s[i] == 'i' || s[i] == 'I')) {
    /* NaN+Infinity build (C10: accepted only when the option is enabled): after the optional sign, n/N denotes NaN and i/I
     * a signed infinity; both are floating kinds and make_float is never consulted */
    uint64_t u0 = 0, i0 = 0; double d0 = 0; int k0 = (int)w_parse_kind(s, &u0, &i0, &d0); VOBS(k0); VOBS(vbits64(d0) != 0);
    VASSERT(k0 == 1 || k0 == 4, "NaN / Infinity spelling is a floating kind");
    VASSERT(g_mf_calls == 0, "no scaling for NaN / Infinity");
    if (s[i] == 'n' || s[i] == 'N') { VASSERT(d0 != d0, "n.. denotes NaN"); VWITNESS("nan"); }
    else { VASSERT(d0 == (neg ? -__builtin_inf() : __builtin_inf()), "i.. denotes infinity with the literal's sign"); VWITNESS("inf"); }
    return;
  }
  if (!isdig(s[i]) && s[i] != '.') valid = 0;
  for (unsigned k = 0; k < NB; k++) if (valid && isdig(s[i])) { M = M * 10 + (s[i] - '0'); i++; }
  if (valid && s[i] == '.') { isint = 0; i++; for (unsigned k = 0; k < NB; k++) if (isdig(s[i])) { M = M * 10 + (s[i] - '0'); fr++; i++; } }
  if (valid && (s[i] == 'e' || s[i] == 'E')) { isint = 0; i++; if (s[i] == '-') { exneg = 1; i++; } else if (s[i] == '+') i++;
    for (unsigned k = 0; k < NB; k++) if (isdig(s[i])) { ex = ex * 10 + (s[i] - '0'); exdigits++; i++; } }
  if (valid && s[i] != 0) valid = 0;
  int E = (exneg ? -ex : ex) - fr;
  uint64_t u = 0, i64 = 0; double d = 0;
  int k = (int)w_parse_kind(s, &u, &i64, &d); VOBS(k); VOBS(u); VOBS(i64); VOBS(vbits64(d));
  VASSERT((k != 0) == valid, "accepted iff the text matches the number grammar (C10)");
  if (!valid) { VWITNESS("invalid"); return; }
  if (isint) {
    if (!neg) { VASSERT(k == 3 && u == M, "integer literal: exact unsigned value"); } else { VASSERT(k == 2 && i64 == (uint64_t)0 - M, "integer literal: exact signed value"); }
    VWITNESS("int"); return;
  }
  VASSERT(k == 1 || k == 4, "a literal with fraction or exponent is a floating kind");
  int magnitude_pos = exneg ? -ex : ex;   /* the code tests exponent + offset against 308 while scanning */
  if (g_mf_calls == 0) {
    /* exponent overflow shortcut */
    VASSERT(ex - fr > 308 || ex > 308, "the shortcut is taken only for |exponent| > 308");
    if (M == 0) VASSERT(d == 0.0, "zero mantissa denotes zero whatever the exponent");
    else if (!exneg) VASSERT(d == (neg ? -__builtin_inf() : __builtin_inf()), "overflow: +-infinity");
    else VASSERT(d == 0.0 && (vbits64(d) >> 63) == (uint64_t)neg, "underflow: +-0");
    VWITNESS("shortcut"); return;
  }
  VASSERT(g_mf_calls == 1 || (g_mf_calls == 2 && g_mf_first_ovf && g_mf_kind == 4), "scaling invoked once (twice only to redo an overflowing single-precision attempt in double precision)");
  VASSERT(g_mf_m == (double)M && g_mf_e == E, "mantissa and decimal exponent handed to the scaling denote exactly the literal");
  if (g_mf_kind == 1) {
    VASSERT(M <= 16777216, "single precision only when the mantissa is exactly representable");
    VASSERT(!flt_overflows((double)M, E), "single precision only when the value fits a float: a literal between FLT_MAX and 1e45 must not become infinity");
    /* below FLT_MIN a float is subnormal: the value M x 10^E must stay >= 1e-38 to keep 1e-6 relative accuracy */
    if (E < -38) { uint64_t p = 1; for (int j = 0; j < 8; j++) if (j < -38 - E) p *= 10; VASSERT(-38 - E <= 7 && M >= p, "single precision only when the value is not below the float range (no subnormal results)"); }
    VASSERT(k == 1, "float kind reported"); VWITNESS("float");
  } else { VASSERT(k == 4, "double kind reported"); VWITNESS("double"); }
  uint64_t want = g_mf_kind == 1 ? vbits64((double)(neg ? -vin_unbits32((uint32_t)g_mf_ret) : vin_unbits32((uint32_t)g_mf_ret))) : (g_mf_ret ^ ((uint64_t)neg << 63));
  if (!(d != d)) VASSERT(vbits64(d) == want, "the scaled value is returned with the literal's sign");
}

/* ---- 8 significant digits "D.DDDDDDD": more than seven significant digits must take the double-precision path (the
 * single-precision one cannot give 1e-13 relative accuracy); the mantissa/exponent pair must denote the literal */
void h_pnum_8digits(void) {
  uint8_t s[10]; uint64_t M = 0;
  for (unsigned i = 0; i < 9; i++) { if (i == 1) { s[i] = '.'; continue; } uint8_t c = vin_u8(); VASSUME(c >= '0' && c <= '9'); s[i] = c; M = M * 10 + (c - '0'); }
  s[9] = 0; VASSUME(s[0] != '0');
  uint64_t u = 0, i64 = 0; double d = 0;
  int k = (int)w_parse_kind(s, &u, &i64, &d); VOBS(k);
  VASSERT(k == 1 || k == 4, "floating kind"); VASSERT(g_mf_calls >= 1, "scaled once");
  VASSERT(g_mf_m == (double)M && g_mf_e == -7, "mantissa 8 digits, exponent -7: exactly the literal");
  VASSERT(k == 4 && g_mf_kind == 4, "eight significant digits are parsed in double precision (a float cannot hold them to 1e-13)");
  VWITNESS("any");
}
