/* C18 [K1]: arithmeticCompare<U,T> for every instantiation reachable from Comparer<T>::visit(U)
 * (U = JsonInteger/JsonUInt/JsonFloat as delivered by the variant visitor, T = the C++ scalar or the other variant's
 * visitor type), ALL values. Oracle: integer/integer exactly (through __int128); a pair with a floating operand as doubles. NaN excluded. */
#include "vh.h"
#include "num.h"
typedef __int128 i128;
#define T_i8 int8_t
#define T_u8 uint8_t
#define T_i16 int16_t
#define T_u16 uint16_t
#define T_i32 int32_t
#define T_u32 uint32_t
#define T_i64 int64_t
#define T_u64 uint64_t
#define U_i8 uint8_t
#define U_u8 uint8_t
#define U_i16 uint16_t
#define U_u16 uint16_t
#define U_i32 uint32_t
#define U_u32 uint32_t
#define U_i64 uint64_t
#define U_u64 uint64_t
#define LESS 4
#define GREATER 2
#define EQUAL 1
#define H_II(a, b) void h_cmp_##a##_##b(void) { \
  T_##a x = (T_##a)vin_u64(); T_##b y = (T_##b)vin_u64(); \
  int r = (int)w_cmp_##a##_##b((U_##a)x, (U_##b)y); VOBS(r); \
  int e = (i128)x < (i128)y ? LESS : (i128)x > (i128)y ? GREATER : EQUAL; \
  VASSERT(r == e, "integer pair compares exactly by value"); \
  if (e == EQUAL) VWITNESS("eq"); else VWITNESS("ne"); }
#define H_IF(a, b, tf, vinf) void h_cmp_##a##_##b(void) { \
  T_##a x = (T_##a)vin_u64(); tf y = vinf(); VASSUME(y == y); \
  int r = (int)w_cmp_##a##_##b((U_##a)x, y); VOBS(r); \
  double dx = (double)x, dy = (double)y; int e = dx < dy ? LESS : dx > dy ? GREATER : EQUAL; \
  VASSERT(r == e, "integer vs floating compares as doubles"); \
  if (e == EQUAL) VWITNESS("eq"); else VWITNESS("ne"); }
#define H_FI(b) void h_cmp_f64_##b(void) { \
  double x = vin_f64(); T_##b y = (T_##b)vin_u64(); VASSUME(x == x); \
  int r = (int)w_cmp_f64_##b(x, (U_##b)y); VOBS(r); \
  double dy = (double)y; int e = x < dy ? LESS : x > dy ? GREATER : EQUAL; \
  VASSERT(r == e, "floating vs integer compares as doubles"); \
  if (e == EQUAL) VWITNESS("eq"); else VWITNESS("ne"); }
#define H_FF(b, tb, vb) void h_cmp_f64_##b(void) { \
  double x = vin_f64(); tb y = vb(); VASSUME(x == x && y == y); \
  int r = (int)w_cmp_f64_##b(x, y); VOBS(r); \
  double dy = (double)y; int e = x < dy ? LESS : x > dy ? GREATER : EQUAL; \
  VASSERT(r == e, "floating pair compares as doubles"); \
  if (e == EQUAL) VWITNESS("eq"); else VWITNESS("ne"); }
#define ROW(a) H_II(a, i8) H_II(a, u8) H_II(a, i16) H_II(a, u16) H_II(a, i32) H_II(a, u32) H_II(a, i64) H_II(a, u64) H_IF(a, f32, float, vin_f32) H_IF(a, f64, double, vin_f64)
ROW(i64) ROW(u64)
H_FI(i8) H_FI(u8) H_FI(i16) H_FI(u16) H_FI(i32) H_FI(u32) H_FI(i64) H_FI(u64) H_FF(f32, float, vin_f32) H_FF(f64, double, vin_f64)
