/* C08/C07 [K1]: MsgPackSerializer::visit for every scalar kind, ALL values, decoded back by a reference MessagePack
 * decoder written here; width-selection ladders of strings / arrays / maps for a symbolic length over the whole range. */
#include "vh.h"
#include "mp.h"
static size_t g_size;
uint64_t CUT_COLL_SIZE(struct S_AJ__detail__CollectionData* c, struct S_AJ__detail__ResourceManager* rm) { return g_size; }
static uint64_t be(const uint8_t* p, unsigned n) { uint64_t v = 0; for (unsigned i = 0; i < 8; i++) if (i < n) v = (v << 8) | p[i]; return v; }

void h_mp_uint(void) {
  uint64_t v = vin_u64(); uint8_t h[16]; memset(h, 0xA5, 16); uint64_t total = 0;
  uint64_t r = w_mp_uint(v, h, &total); VOBS(r); VOBSB(h, 16);
  unsigned w = v <= 0x7F ? 0 : v <= 0xFF ? 1 : v <= 0xFFFF ? 2 : v <= 0xFFFFFFFFULL ? 4 : 8;
  VASSERT(r == total && total == (w ? 1u + w : 1u), "count = bytes produced = minimal width encoding");
  if (w == 0) { VASSERT(h[0] == (uint8_t)v, "positive fixint"); VWITNESS("fix"); }
  else { VASSERT(h[0] == (w == 1 ? 0xCC : w == 2 ? 0xCD : w == 4 ? 0xCE : 0xCF), "uint8/16/32/64 format code"); VASSERT(be(h + 1, w) == v, "big-endian payload equals the value"); if (w == 8) VWITNESS("u64"); if (w == 2) VWITNESS("u16"); }
  VASSERT(h[total] == 0xA5, "nothing beyond");
}
void h_mp_int(void) {
  int64_t v = (int64_t)vin_u64(); uint8_t h[16]; memset(h, 0xA5, 16); uint64_t total = 0;
  uint64_t r = w_mp_int((uint64_t)v, h, &total); VOBS(r); VOBSB(h, 16);
  VASSERT(r == total, "count = bytes produced");
  /* reference decoder: any integer family */
  uint8_t c = h[0]; int64_t dec = 0; unsigned len = 0; int is_unsigned_big = 0; uint64_t udec = 0;
  if (c <= 0x7F) { dec = c; len = 1; } else if (c >= 0xE0) { dec = (int8_t)c; len = 1; }
  else if (c == 0xCC) { dec = h[1]; len = 2; } else if (c == 0xCD) { dec = (int64_t)be(h + 1, 2); len = 3; } else if (c == 0xCE) { dec = (int64_t)be(h + 1, 4); len = 5; }
  else if (c == 0xCF) { udec = be(h + 1, 8); is_unsigned_big = 1; len = 9; }
  else if (c == 0xD0) { dec = (int8_t)h[1]; len = 2; } else if (c == 0xD1) { dec = (int16_t)be(h + 1, 2); len = 3; } else if (c == 0xD2) { dec = (int32_t)be(h + 1, 4); len = 5; } else if (c == 0xD3) { dec = (int64_t)be(h + 1, 8); len = 9; }
  VASSERT(len != 0, "an integer format code is emitted");
  VASSERT(total == len, "exactly one object");
  if (is_unsigned_big) VASSERT(v >= 0 && udec == (uint64_t)v, "value preserved"); else VASSERT(dec == v, "value and sign preserved");
  /* minimal width */
  unsigned minlen = v >= 0 ? (v <= 0x7F ? 1 : v <= 0xFF ? 2 : v <= 0xFFFF ? 3 : v <= 0xFFFFFFFFLL ? 5 : 9) : (v >= -32 ? 1 : v >= -128 ? 2 : v >= -32768 ? 3 : v >= -2147483648LL ? 5 : 9);
  VASSERT(total == minlen, "minimal-width rule on both sides of every boundary");
  if (v < -2147483648LL) VWITNESS("i64"); if (v >= -32 && v < 0) VWITNESS("negfix"); if (v > 0xFFFFFFFFLL) VWITNESS("u64");
}
static void expect_int_encoding(const uint8_t* h, uint64_t total, int64_t v) {
  uint8_t c = h[0]; int64_t dec = 0; unsigned len = 0; uint64_t udec = 0; int big = 0;
  if (c <= 0x7F) { dec = c; len = 1; } else if (c >= 0xE0) { dec = (int8_t)c; len = 1; }
  else if (c == 0xCC) { dec = h[1]; len = 2; } else if (c == 0xCD) { dec = (int64_t)be(h + 1, 2); len = 3; } else if (c == 0xCE) { dec = (int64_t)be(h + 1, 4); len = 5; }
  else if (c == 0xCF) { udec = be(h + 1, 8); big = 1; len = 9; }
  else if (c == 0xD0) { dec = (int8_t)h[1]; len = 2; } else if (c == 0xD1) { dec = (int16_t)be(h + 1, 2); len = 3; } else if (c == 0xD2) { dec = (int32_t)be(h + 1, 4); len = 5; } else if (c == 0xD3) { dec = (int64_t)be(h + 1, 8); len = 9; }
  VASSERT(len != 0 && total == len, "integral float: one integer object");
  if (big) VASSERT(v >= 0 && udec == (uint64_t)v, "integral float: same value"); else VASSERT(dec == v, "integral float: same value");
}
void h_mp_f32(void) {
  float v = vin_f32(); uint8_t h[16]; memset(h, 0xA5, 16); uint64_t total = 0;
  uint64_t r = w_mp_f32(v, h, &total); VOBS(r); VOBSB(h, 16);
  VASSERT(r == total, "count = bytes produced");
  int integral = (v == v) && v >= -9223372036854775808.0f && v < 9223372036854775808.0f && (float)(int64_t)v == v;
  if (integral) { expect_int_encoding(h, total, (int64_t)v); VWITNESS("integral"); }
  else { VASSERT(total == 5 && h[0] == 0xCA && (uint32_t)be(h + 1, 4) == vbits32(v), "float32 bit-exact (NaN payloads included)"); VWITNESS("float"); }
}
void h_mp_f64(void) {
  double v = vin_f64(); uint8_t h[16]; memset(h, 0xA5, 16); uint64_t total = 0;
  uint64_t r = w_mp_f64(v, h, &total); VOBS(r); VOBSB(h, 16);
  VASSERT(r == total, "count = bytes produced");
  int as_float = (v == v) && (double)(float)v == v;
  int integral = (v == v) && v >= -9223372036854775808.0 && v < 9223372036854775808.0 && (double)(int64_t)v == v && as_float;
  if (integral) { expect_int_encoding(h, total, (int64_t)v); VWITNESS("integral"); }
  else if (as_float) { VASSERT(total == 5 && h[0] == 0xCA && (uint32_t)be(h + 1, 4) == vbits32((float)v), "float-representable double is written as float32, bit-exact"); VWITNESS("as-float"); }
  else { VASSERT(total == 9 && h[0] == 0xCB && be(h + 1, 8) == vbits64(v), "float64 bit-exact (NaN included)"); VWITNESS("double"); }
}
void h_mp_misc(void) {
  uint8_t h[16]; memset(h, 0xA5, 16); uint64_t total = 0; uint8_t b = vin_u8() & 1;
  uint64_t r = w_mp_bool(b, h, &total); VASSERT(r == 1 && total == 1 && h[0] == (b ? 0xC3 : 0xC2), "true/false");
  memset(h, 0xA5, 16); total = 0; r = w_mp_null(h, &total); VASSERT(r == 1 && total == 1 && h[0] == 0xC0, "nil"); VWITNESS("any");
}
void h_mp_str(void) {   /* header ladder with n symbolic over 0..2^32-1; first bytes of the payload verbatim */
  uint8_t s[16] = {vin_u8(), vin_u8(), vin_u8(), vin_u8()};   /* the capturing writer looks at the first 16 payload bytes at most */
  uint64_t n = vin_u64(); VASSUME(n <= 0xFFFFFFFFULL);
  uint8_t h[16]; memset(h, 0xA5, 16); uint64_t total = 0;
  uint64_t r = w_mp_str(s, n, h, &total); VOBS(r); VOBSB(h, 8);
  unsigned hl = n < 32 ? 1 : n < 256 ? 2 : n < 65536 ? 3 : 5;
  VASSERT(r == total && total == hl + n, "count = header + payload");
  if (hl == 1) VASSERT(h[0] == 0xA0 + n, "fixstr"); else if (hl == 2) VASSERT(h[0] == 0xD9 && h[1] == n, "str8"); else if (hl == 3) VASSERT(h[0] == 0xDA && be(h + 1, 2) == n, "str16"); else VASSERT(h[0] == 0xDB && be(h + 1, 4) == n, "str32");
  for (unsigned i = 0; i < 4; i++) if (i < n) VASSERT(h[hl + i] == s[i], "payload bytes verbatim (NUL included)");
  if (n == 31) VWITNESS("31"); if (n == 32) VWITNESS("32"); if (n == 255) VWITNESS("255"); if (n == 256) VWITNESS("256"); if (n == 65535) VWITNESS("65535"); if (n == 65536) VWITNESS("65536");
}
void h_mp_raw(void) {   /* bin/ext and serialized() values are emitted verbatim */
  uint8_t s[4] = {vin_u8(), vin_u8(), vin_u8(), vin_u8()}; uint64_t n = vin_u64(); VASSUME(n <= 4);
  uint8_t h[16]; memset(h, 0xA5, 16); uint64_t total = 0;
  uint64_t r = w_mp_raw(s, n, h, &total);
  VASSERT(r == n && total == n, "raw: exactly the bytes"); for (unsigned i = 0; i < 4; i++) if (i < n) VASSERT(h[i] == s[i], "raw bytes verbatim"); VASSERT(h[n] == 0xA5, "nothing beyond"); VWITNESS("any");
}
void h_mp_array_hdr(void) {
  g_size = vin_u64(); VASSUME(g_size <= 0xFFFFFFFFULL); uint64_t n = g_size;
  uint8_t h[16]; memset(h, 0xA5, 16); uint64_t total = 0; uint64_t r = w_mp_array_hdr(h, &total); VOBSB(h, 8);
  unsigned hl = n < 16 ? 1 : n < 65536 ? 3 : 5;
  VASSERT(r == total && total == hl, "array header only (the list is empty in this harness)");
  if (hl == 1) VASSERT(h[0] == 0x90 + n, "fixarray"); else if (hl == 3) VASSERT(h[0] == 0xDC && be(h + 1, 2) == n, "array16"); else VASSERT(h[0] == 0xDD && be(h + 1, 4) == n, "array32");
  if (n == 15) VWITNESS("15"); if (n == 16) VWITNESS("16"); if (n == 65535) VWITNESS("65535"); if (n == 65536) VWITNESS("65536");
}
void h_mp_object_hdr(void) {
  uint64_t n = vin_u64(); VASSUME(n <= 0x7FFFFFFFULL); g_size = 2 * n;   /* a map of n entries occupies 2n slots */
  uint8_t h[16]; memset(h, 0xA5, 16); uint64_t total = 0; uint64_t r = w_mp_object_hdr(h, &total); VOBSB(h, 8);
  unsigned hl = n < 16 ? 1 : n < 65536 ? 3 : 5;
  VASSERT(r == total && total == hl, "map header only");
  if (hl == 1) VASSERT(h[0] == 0x80 + n, "fixmap"); else if (hl == 3) VASSERT(h[0] == 0xDE && be(h + 1, 2) == n, "map16"); else VASSERT(h[0] == 0xDF && be(h + 1, 4) == n, "map32");
  if (n == 15) VWITNESS("15"); if (n == 16) VWITNESS("16"); if (n == 65535) VWITNESS("65535"); if (n == 65536) VWITNESS("65536");
}
