/* C02/C12 [K2]: writeInteger<signed T> = optional '-' then writeInteger<unsigned T>(|v|), the unsigned digit loop being cut
 * (it is decided for all values by wi_u16/u32/u64). The stub records its argument; it writes nothing. */
#include "vh.h"
#include "wisign.h"
static uint64_t g_arg; static unsigned g_calls; static uint8_t g_first_at_call;
static uint8_t* g_buf;
#define STUB(alias, UT) void alias(struct S_AJ__detail__TextFormatter* self, UT v) { g_arg = v; g_calls++; g_first_at_call = g_buf[0]; }
STUB(CUT_WI_U64, uint64_t) STUB(CUT_WI_U32, uint32_t) STUB(CUT_WI_U16, uint16_t) STUB(CUT_WI_U8, uint8_t)
#define H(name, T, UT, wfn) void h_wis_##name(void) { \
  T v = (T)vin_u64(); uint8_t buf[8]; memset(buf, 0xA5, 8); g_buf = buf + 2; \
  uint64_t n = wfn((UT)v, buf + 2, 4); VOBS(n); VOBS(g_arg); \
  VASSERT(g_calls == 1, "the unsigned digit writer is called exactly once"); \
  if (v < 0) { VASSERT(n == 1 && buf[2] == '-' && g_first_at_call == '-', "minus sign is written first"); \
               VASSERT((UT)g_arg == (UT)((UT)0 - (UT)v), "magnitude passed on (also for the most negative value)"); VWITNESS("neg"); } \
  else { VASSERT(n == 0 && buf[2] == 0xA5, "no sign for non-negative values"); VASSERT((UT)g_arg == (UT)v, "value passed on"); VWITNESS("pos"); } \
  VASSERT(buf[1] == 0xA5 && buf[3] == 0xA5, "nothing else written"); }
H(i64, int64_t, uint64_t, w_wis_i64) H(i32, int32_t, uint32_t, w_wis_i32) H(i16, int16_t, uint16_t, w_wis_i16) H(i8, int8_t, uint8_t, w_wis_i8)
