/* C12 [K1]: decomposeFloat(x, places) for values printed WITHOUT exponent (1e-5 < x < 1e7; normalize() is cut and must be
 * asked for nothing): integral.decimal (decimalPlaces digits) is within 1e-9*max(1,x) of x for places=9 (doubles) and within
 * 1e-6*max(1,x) for places=6 (floats), decimal < 10^decimalPlaces (so that writeDecimals prints it), no trailing zero kept. */
#include "vh.h"
#include "fp.h"
#ifndef PLACES
#define PLACES 9
#endif
#ifndef LO
#define LO 1.0
#define HI 10.0
#endif
static int g_norm_calls; static double g_norm_arg;
int16_t CUT_NORM(double* v) { g_norm_calls++; g_norm_arg = *v; return 0; }
static const uint32_t P10[10] = {1u, 10u, 100u, 1000u, 10000u, 100000u, 1000000u, 10000000u, 100000000u, 1000000000u};
void h_decomp(void) {
  double x = vin_f64();
  VASSUME(x >= LO && x < HI);
#ifdef FLOATREP
  VASSUME((double)(float)x == x);
#endif
  uint32_t o[4]; w_decomp(x, PLACES, o);
  VOBS(o[0]); VOBS(o[1]); VOBS(o[3]);
  VASSERT(g_norm_calls == 1 && g_norm_arg == x && o[2] == 0, "normalisation consulted once; no exponent in this range");
  int dp = (int)(int32_t)o[3];
  VASSERT(dp >= 0 && dp <= PLACES, "decimal places within the request");
  VASSERT(o[1] < P10[dp], "the decimal part has at most decimalPlaces digits");
  VASSERT(dp == 0 || o[1] % 10 != 0, "no trailing zero is kept");
  double approx = (double)o[0] + (double)o[1] / (double)P10[dp];
  double err = approx > x ? approx - x : x - approx;
  double tol = (PLACES == 9 ? 1e-9 : 1e-6) * (x > 1.0 ? x : 1.0);
  VASSERT(err <= tol, "printed digits within the stated accuracy of the value");
  VWITNESS("any");
}
