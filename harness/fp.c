/* C12 [K1]: decomposeFloat(x, places) for values printed WITHOUT exponent (1e-5 < x < 1e7; normalize() is cut and must be
 * asked for nothing): integral.decimal (decimalPlaces digits) is within 1e-9*max(1,x) of x for places=9 (doubles) and within
 * 1e-6*max(1,x) for places=6 (floats), decimal < 10^decimalPlaces (so that writeDecimals prints it), no trailing zero kept. */
#include "vh.h"
#include "fp.h"
#ifndef PLACES
#define PLACES 9
#endif
#ifndef LO
#define LO 1.0
#define HI 10.0
#endif
static int g_norm_calls; static double g_norm_arg;
int16_t CUT_NORM(double* v) { g_norm_calls++; g_norm_arg = *v; return 0; }
static const uint32_t P10[10] = {1u, 10u, 100u, 1000u, 10000u, 100000u, 1000000u, 10000000u, 100000000u, 1000000000u};
void h_decomp(void) {
  double x = vin_f64();
  VASSUME(x >= LO && x < HI);
#ifdef FLOATREP
  VASSUME((double)(float)x == x);
#endif
  uint32_t o[4]; w_decomp(x, PLACES, o);
  VOBS(o[0]); VOBS(o[1]); VOBS(o[3]);
  VASSERT(g_norm_calls == 1 && g_norm_arg == x && o[2] == 0, "normalisation consulted once; no exponent in this range");
  int dp = (int)(int32_t)o[3];
  VASSERT(dp >= 0 && dp <= PLACES, "decimal places within the request");
  VASSERT(o[1] < P10[dp], "the decimal part has at most decimalPlaces digits");
  VASSERT(dp == 0 || o[1] % 10 != 0, "no trailing zero is kept");
  double approx = (double)o[0] + (double)o[1] / (double)P10[dp];
  double err = approx > x ? approx - x : x - approx;
  double tol = (PLACES == 9 ? 1e-9 : 1e-6) * (x > 1.0 ? x : 1.0);
  VASSERT(err <= tol, "printed digits within the stated accuracy of the value");
  VWITNESS("any");
}

/* ---- C12 [K2]: doc.set(x); serializeJson(doc): the integral and decimal digits handed to the (cut) digit writers denote a
 * value within 1e-9*max(1,x) of a double x, within 1e-6*max(1,x) of a float x. FLOATREP selects doubles that are / are not
 * exactly representable as float (the library stores the former as float). */
static unsigned g_wi_calls, g_wd_calls; static uint32_t g_int, g_dec; static int g_places;
void CUT_WI32(struct S_AJ__detail__TextFormatter* self, uint32_t v) { g_wi_calls++; g_int = v; }
void CUT_WDEC(struct S_AJ__detail__TextFormatter* self, uint32_t v, int8_t w) { g_wd_calls++; g_dec = v; g_places = w; }
/* visitor cases that a numeric document never reaches: cut so that symbolic execution does not wander into them, and ASSERTED unreachable */
uint64_t CUT_VOBJ(struct S_AJ__detail__JsonSerializer* self, struct S_AJ__detail__ObjectData* o) { VASSERT(0, "object visitor unreachable for a numeric document"); return 0; }
uint64_t CUT_VARR(struct S_AJ__detail__JsonSerializer* self, struct S_AJ__detail__ArrayData* a) { VASSERT(0, "array visitor unreachable for a numeric document"); return 0; }
void CUT_WSTR2(struct S_AJ__detail__TextFormatter* self, uint8_t* s, uint64_t n) { VASSERT(0, "string writer unreachable for a numeric document"); }
#ifndef FLOATREP
#define FLOATREP 0
#endif
static void check_digits(double x, double rel) {
  VOBS(g_norm_calls); VOBS(g_wi_calls); VOBS(g_wd_calls);
  VASSERT(g_norm_calls == 1 && g_wi_calls == 1 && g_wd_calls <= 1, "one integral part, at most one decimal part, no exponent in this range");
  int dp = g_wd_calls ? g_places : 0; uint32_t dec = g_wd_calls ? g_dec : 0;
  VASSERT(dp >= 0 && dp <= 9 && dec < P10[dp], "the decimal part fits its width");
  double approx = (double)g_int + (double)dec / (double)P10[dp];
  double err = approx > x ? approx - x : x - approx;
  VOBS(g_int); VOBS(dec); VOBS((uint32_t)dp);
  VASSERT(err <= rel * (x > 1.0 ? x : 1.0), "the printed literal is within the stated accuracy of the value that was given");
}
void h_ser_f64(void) {
  double x = vin_f64(); VASSUME(x >= LO && x < HI);
  if (FLOATREP) VASSUME((double)(float)x == x); else VASSUME((double)(float)x != x);
  uint8_t buf[32]; w_ser_f64(x, buf, 32);
  check_digits(x, 1e-9); VWITNESS("any");
}
void h_ser_f32(void) {
  float x = vin_f32(); VASSUME((double)x >= LO && (double)x < HI);
  uint8_t buf[32]; w_ser_f32(x, buf, 32);
  check_digits((double)x, 1e-6); VWITNESS("any");
}
