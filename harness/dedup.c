/* C06/C14/C01/C09 [K3]: a string is parsed into a document that already owns one string whose bytes are SYMBOLIC
 * (length PRELEN, NUL allowed). Text skeleton (concrete): the string a b NUL c d  (JSON: "ab\u0000cd", MessagePack:
 * fixstr of 5 bytes). Expected: the new value has all 5 bytes; it shares the existing node iff that node holds exactly
 * the same 5 bytes, in which case the reference count goes from 1 to 2; otherwise the old node keeps count 1. */
#include "vh.h"
#include UNIT_H
#ifndef PRELEN
#define PRELEN 2
#endif
/* S_DedupOut: f0 code f1 len f2 shared f3 pre_refs f4 pre_len f5 overflowed (f6 kind for msgpack) then bytes */
#ifdef MSGPACK
#define BYTES f7
#else
#define BYTES f6
#endif
void h_dedup(void) {
  uint8_t pre[5]; for (unsigned i = 0; i < 5; i++) pre[i] = i < PRELEN ? vin_u8() : 0;
  static const uint8_t want[5] = {'a', 'b', 0, 'c', 'd'};
  struct S_DedupOut o; memset(&o, 0, sizeof o);
#ifdef MSGPACK
  uint8_t in[] = {0xa5, 'a', 'b', 0, 'c', 'd'};
  w_md_str_pre(in, sizeof in, pre, PRELEN, &o);
#else
  uint8_t in[] = {'"', 'a', 'b', '\\', 'u', '0', '0', '0', '0', 'c', 'd', '"'};
  w_psv_pre(in, sizeof in, pre, PRELEN, &o);
#endif
  VOBS(o.f0); VOBS(o.f1); VOBS(o.f2); VOBS(o.f3);
  VASSERT(o.f0 == 0 && !(o.f5 & 1), "parsed without error");
  VASSERT(o.f1 == 5, "the whole string is kept: an embedded NUL does not cut it short");
  for (unsigned i = 0; i < 5; i++) VASSERT(o.BYTES.e[i] == want[i], "bytes identical to the text");
  int same = PRELEN == 5 && pre[0] == 'a' && pre[1] == 'b' && pre[2] == 0 && pre[3] == 'c' && pre[4] == 'd';
  VASSERT((o.f2 & 1) == same, "an existing copy is shared iff it holds exactly the same bytes and length");
  VASSERT(o.f3 == (same ? 2u : 1u), "reference count of the existing copy: +1 when shared, untouched otherwise");
  VASSERT(o.f4 == PRELEN, "the existing string keeps its length");
  if (same) VWITNESS("shared"); else VWITNESS("distinct");
}
