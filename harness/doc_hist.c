/* C04/C05/C06 [K3]: short public-API histories on arrays with symbolic values; the operation sequence, indices and the
 * allocator-failure position are part of the shape (one obligation each). Model: a plain C array of ints. */
#include "vh.h"
#ifndef UNIT_H
#define UNIT_H "doc.h"
#endif
#include UNIT_H
/* S_Hist: f0 size f1 n(iterated) f2 overflowed f3 calls_before f4 calls_after f5 ok_mask f6 nesting f7 frees f8 e[8] */
#ifndef R
#define R 0
#endif
void h_add_remove_add(void) {
  int32_t a = (int32_t)vin_u32(), b = (int32_t)vin_u32(), c = (int32_t)vin_u32(), d = (int32_t)vin_u32();
  struct S_Hist h; memset(&h, 0, sizeof h); w_hist_add_remove_add((uint32_t)a, (uint32_t)b, (uint32_t)c, (uint32_t)d, R, &h);
  int32_t m[3]; unsigned k = 0; if (R != 0) m[k++] = a; if (R != 1) m[k++] = b; if (R != 2) m[k++] = c;
  VASSERT(h.f5 == 15 && !(h.f2 & 1), "every operation succeeds");
  VASSERT(h.f0 == 3 && h.f1 == 3, "size and iteration agree with the model");
  VASSERT((int32_t)h.f8.e[0] == m[0] && (int32_t)h.f8.e[1] == m[1] && (int32_t)h.f8.e[2] == d, "remaining elements keep their order and values; the new one is last");
  VASSERT(h.f4 == h.f3, "the slot released by remove() is reused: no allocator call (C06)");
  VASSERT(h.f6 == 1, "nesting of a flat array");
  VASSERT(h.f7 == h.f4, "every block handed out is returned at destruction");
  VWITNESS("any");
}
#ifndef FAILAT
#define FAILAT 0
#endif
void h_five_adds(void) {
  int32_t v[5]; for (unsigned i = 0; i < 5; i++) v[i] = (int32_t)vin_u32();
  struct S_Hist h; memset(&h, 0, sizeof h); w_hist_five_adds((uint32_t)v[0], (uint32_t)v[1], (uint32_t)v[2], (uint32_t)v[3], (uint32_t)v[4], FAILAT, &h);
  /* allocator calls: #1 = first pool, #2 = second pool (needed by the 5th element) */
  /* FAILAT 1: the first add fails, the next one asks for a pool again (call #2) and the remaining four fit in it */
  unsigned expect_ok = FAILAT == 1 ? 30u : FAILAT == 2 ? 15u : 31u, n = FAILAT == 0 ? 5 : 4; const unsigned first = FAILAT == 1 ? 1 : 0;
  VASSERT(h.f5 == expect_ok, "exactly the operations whose allocation failed report failure");
  VASSERT((h.f2 & 1) == (FAILAT == 1 || FAILAT == 2), "overflowed() is set iff an allocation failed");
  VASSERT(h.f0 == n && h.f1 == n, "the document holds exactly the elements whose insertion succeeded");
  for (unsigned i = 0; i < 5; i++) if (i < n) VASSERT((int32_t)h.f8.e[i] == v[first + i], "values outside the failed operation are unchanged, in order");
  VWITNESS("any");
}
#ifndef IDX
#define IDX 2
#endif
void h_set_beyond(void) {
  int32_t a = (int32_t)vin_u32(), x = (int32_t)vin_u32();
  struct S_Hist h; memset(&h, 0, sizeof h); w_hist_set_beyond((uint32_t)a, (uint32_t)x, IDX, &h);
  VASSERT(h.f0 == IDX + 1 && h.f1 == IDX + 1, "assigning beyond the end extends the array up to that index");
  VASSERT((int32_t)h.f8.e[0] == (IDX == 0 ? x : a), "first element");
  for (unsigned i = 1; i < IDX; i++) VASSERT((int32_t)h.f8.e[i] == -1000, "the gap is filled with nulls");
  if (IDX > 0) VASSERT((int32_t)h.f8.e[IDX] == x, "the assigned element");
  VWITNESS("any");
}
void h_copy(void) {
  int32_t a = (int32_t)vin_u32(), b = (int32_t)vin_u32(), x = (int32_t)vin_u32(), y = (int32_t)vin_u32();
  struct S_Hist h1, h2; memset(&h1, 0, sizeof h1); memset(&h2, 0, sizeof h2); w_hist_copy((uint32_t)a, (uint32_t)b, (uint32_t)x, (uint32_t)y, &h1, &h2);
  VASSERT(h1.f0 == 3 && (int32_t)h1.f8.e[0] == x && (int32_t)h1.f8.e[1] == b && (int32_t)h1.f8.e[2] == y, "the source reflects its own mutations");
  VASSERT(h2.f0 == 2 && h2.f1 == 2 && (int32_t)h2.f8.e[0] == a && (int32_t)h2.f8.e[1] == b, "a copy-constructed document is deep and independent of its source");
  VASSERT(h1.f7 == h1.f4, "both documents return every block");
  VWITNESS("any");
}
void h_clear_reuse(void) {
  int32_t a = (int32_t)vin_u32(), b = (int32_t)vin_u32();
  struct S_Hist h; memset(&h, 0, sizeof h); w_hist_clear_reuse((uint32_t)a, (uint32_t)b, &h);
  VASSERT(h.f7 == h.f3, "clear() returns every block to the allocator");
  VASSERT(h.f0 == 1 && (int32_t)h.f8.e[0] == b && !(h.f2 & 1), "the document works normally after clear()");
  VWITNESS("any");
}

#ifndef EXTFAIL
#define EXTFAIL 1
#endif
void h_ext_fail(void) {   /* doc.set(int64 outside the 32-bit range) with allocator call #EXTFAIL failing (the pool for the extension slot) */
  int64_t v = (int64_t)vin_u64(); VASSUME(v > 2147483647LL || v < -2147483648LL);
  struct S_Hist h; memset(&h, 0, sizeof h); w_ext_fail((uint64_t)v, EXTFAIL, &h);
  if (EXTFAIL) { VASSERT(h.f5 == 0, "set() reports the failure"); VASSERT(h.f2 & 1, "overflowed() becomes true"); VASSERT(h.f8.e[0] == 1, "the value is left null, not half-written"); VWITNESS("failed"); }
  else { VASSERT(h.f5 == 1 && !(h.f2 & 1) && h.f0 == 1 && h.f1 == 1, "stored and read back exactly"); VWITNESS("stored"); }
}
#ifndef PIDX
#define PIDX 3
#endif
void h_readonly_proxy(void) {   /* [a]; nesting()/size()/isNull()/operator| on doc[PIDX] (missing) are read-only */
  int32_t a = (int32_t)vin_u32(); struct S_Hist h; memset(&h, 0, sizeof h); w_readonly_proxy((uint32_t)a, PIDX, &h);
  VASSERT(h.f0 == 1 && h.f1 == 1 && (int32_t)h.f8.e[0] == a, "reading a missing element leaves the array as it was");
  VASSERT(h.f4 == h.f3, "read-only operations never call the allocator");
  VASSERT(h.f8.e[7] == 0 && (h.f5 & 1) && (int32_t)h.f7 == -7, "a missing element has nesting 0, size 0, is null and yields the default");
  VWITNESS("any");
}

/* ---- C13: copyArray never writes beyond the destination it was given */
void h_copyarray_out(void) {
  int32_t a = (int32_t)vin_u32(), b = (int32_t)vin_u32(), c = (int32_t)vin_u32(); uint64_t cap = vin_u8(); VASSUME(cap <= 4);
  int32_t dst[6]; for (unsigned i = 0; i < 6; i++) dst[i] = 0x5A5A5A5A;
  uint64_t r = w_copyarray_out((uint32_t)a, (uint32_t)b, (uint32_t)c, cap, (uint32_t*)dst);
  uint64_t n = cap < 3 ? cap : 3; int32_t v[3] = {a, b, c};
  VASSERT(r == n, "returns the number of elements copied = min(capacity, size)");
  for (unsigned i = 0; i < 4; i++) { if (i < n) VASSERT(dst[1 + i] == v[i], "copied elements in order"); else VASSERT(dst[1 + i] == 0x5A5A5A5A, "elements beyond the copied count are untouched"); }
  VASSERT(dst[0] == 0x5A5A5A5A && dst[5] == 0x5A5A5A5A, "nothing outside the destination is written");
  if (cap < 3) VWITNESS("short"); else VWITNESS("fits");
}
void h_copyarray_str(void) {
  uint8_t s[6]; for (unsigned i = 0; i < 6; i++) s[i] = vin_u8(); uint64_t n = vin_u8() % 7; for (unsigned i = 0; i < 6; i++) if (i < n) VASSUME(s[i] != 0);
  uint8_t g[6]; memset(g, 0xA5, 6); uint64_t r = w_copyarray_str(s, n, g);
  uint64_t k = n < 3 ? n : 3;
  VASSERT(r == 1, "one value copied"); for (unsigned i = 0; i < 3; i++) if (i < k) VASSERT(g[1 + i] == s[i], "the string is truncated to the destination");
  VASSERT(g[1 + k] == 0, "always NUL-terminated inside char[4]"); VASSERT(g[0] == 0xA5 && g[5] == 0xA5, "nothing outside the destination is written");
  if (n > 3) VWITNESS("truncated"); else VWITNESS("fits");
}

/* ---- C14/C06: two copied strings of 2 symbolic bytes each; equal ones are stored once; removing the first user leaves the second intact */
void h_shared_strings(void) {
#ifndef EQ
#define EQ 1
#endif
  /* whether the two strings are equal is part of the shape (it decides the heap layout): first byte concrete, second symbolic */
  uint8_t x = vin_u8(); uint8_t s[2] = {'a', x}, t[2] = {EQ ? 'a' : 'b', EQ ? x : vin_u8()};
  struct S_Shr o; memset(&o, 0, sizeof o); w_shared_strings(s, t, 2, &o);
  /* S_Shr: f0 ok f1 size_after f2 len f3 calls_mid f4 calls_end f5 frees_mid f6 frees_after_clear f7 bytes */
  int same = s[0] == t[0] && s[1] == t[1];
  VASSERT(o.f0 == 3, "both insertions succeed");
  VASSERT(o.f1 == 1 && o.f2 == 2 && o.f7.e[0] == t[0] && o.f7.e[1] == t[1], "after removing the first value the second one is intact (same length and bytes, NUL included)");
  VASSERT(o.f3 == (same ? 2u : 3u), "equal copied strings are stored once: pool + one string block, or pool + two");
  VASSERT(o.f5 == (same ? 0u : 1u), "the string block is released exactly when its last user disappears");
  VASSERT(o.f6 == o.f4, "every block is returned at destruction");
  if (same) VWITNESS("shared"); else VWITNESS("distinct");
}

/* ---- C18: arrays differing only by a trailing null are not equal, in either operand order */
#ifndef N1NULL
#define N1NULL 1
#define N2NULL 0
#endif
void h_arr_eq_null(void) {
  int32_t x = (int32_t)vin_u32(), z = (int32_t)vin_u32();
  unsigned r = w_arr_eq_null((uint32_t)x, (uint32_t)z, N1NULL, N2NULL);
  int expect = x == z && N1NULL == N2NULL;
  VASSERT((r & 1) == (unsigned)expect && ((r >> 1) & 1) == (unsigned)expect, "arrays compare element-wise INCLUDING their lengths: a trailing null is an element; symmetric");
  VWITNESS("any");
}
/* ---- C04: adding an unbound (null) array / object / variant reference adds a null element */
#ifndef UNB
#define UNB 0
#endif
void h_set_unbound(void) {
  int32_t a = (int32_t)vin_u32(); struct S_Hist h; memset(&h, 0, sizeof h); w_set_unbound((uint32_t)a, UNB, &h);
  VASSERT(h.f0 == 2 && h.f1 == 2 && (int32_t)h.f8.e[0] == a, "the array has its first element and one more");
  VASSERT(h.f7 == 1 && h.f3 == 0 && h.f4 == 0 && (int32_t)h.f8.e[1] == -1000, "an unbound source copies as null: not an empty array, not an empty object");
  VASSERT(h.f6 == 1, "nesting unchanged");
  VWITNESS("any");
}

/* ---- C05: overflowed() travels with the content through swap / move */
#ifndef SWAPHOW
#define SWAPHOW 0
#endif
void h_swap_overflow(void) {
  int64_t v = (int64_t)vin_u64(); VASSUME(v > 2147483647LL || v < -2147483648LL); int32_t a = (int32_t)vin_u32();
  struct S_Hist h1, h2; memset(&h1, 0, sizeof h1); memset(&h2, 0, sizeof h2);
  w_swap_overflow((uint64_t)v, (uint32_t)a, SWAPHOW, &h1, &h2);
  VASSERT(h1.f5 == 0 && h1.f3 == 1 && h2.f5 == 1 && h2.f3 == 0, "before: d1 failed and is flagged, d2 is complete and not flagged");
  VASSERT(h1.f2 == 0 && h2.f2 == 1, "after the exchange the flag is with the content that suffered the failure");
  VASSERT(h1.f0 == 1 && (int32_t)h1.f8.e[0] == a && h2.f0 == 1, "contents exchanged");
  VWITNESS("any");
}

/* ---- C05: doc[P+1] = x on an array of P elements, the allocator failing ONCE (PADFAIL-th call of the assignment; 0 = never) */
#ifndef PADP
#define PADP 0
#define PADFAIL 1
#endif
void h_pad_fail(void) {
  int32_t a = (int32_t)vin_u32(), x = (int32_t)vin_u32();
  struct S_Hist h; memset(&h, 0, sizeof h); w_hist_pad_fail((uint32_t)a, (uint32_t)x, PADP, PADFAIL, &h);
  for (unsigned i = 0; i < PADP; i++) VASSERT((int32_t)h.f8.e[i] == a, "elements outside the path being modified are unchanged");
  if (PADFAIL) {
    VASSERT(h.f5 == 0, "the assignment reports the failure");
    VASSERT(h.f2 & 1, "overflowed() becomes true");
    VASSERT(h.f0 == h.f1 && h.f0 <= PADP + 1, "no element appears at a wrong index: the array is not extended up to the target");
    for (unsigned i = PADP; i < h.f1 && i < 8; i++) VASSERT((int32_t)h.f8.e[i] == -1000, "whatever padding was added is null");
    VWITNESS("failed");
  } else {
    VASSERT(h.f5 == 1 && !(h.f2 & 1) && h.f0 == PADP + 2 && h.f1 == PADP + 2, "extended up to the index");
    VASSERT((int32_t)h.f8.e[PADP] == -1000 && (int32_t)h.f8.e[PADP + 1] == x, "gap is null, value at its index");
    VWITNESS("stored");
  }
}

/* ---- C06/C14/C19: the node of a raw value / copied string is released when the value is replaced, and only once */
#ifndef RAWKIND
#define RAWKIND 0
#endif
void h_raw_release(void) {
  uint8_t p[3] = {vin_u8(), vin_u8(), 0}; int32_t x = (int32_t)vin_u32();
  struct S_Hist h; memset(&h, 0, sizeof h); w_raw_release(p, (uint32_t)x, RAWKIND, &h);
  VASSERT(h.f5 == 1 && h.f3 == 0, "stored; nothing released yet");
  VASSERT(h.f7 == 1, "replacing the value releases its string node at once (reference count back to zero)");
  VASSERT(h.f0 == 1 && (int32_t)h.f8.e[0] == x, "the new value is in place");
  VASSERT(h.f4 == 1 && h.f1 == 2, "one block was requested for the value (the node); at the end the node and the slot pool have each been released once");
  VWITNESS("any");
}

/* ---- C05/C19: an add() that fails after taking a slot gives the slot back: the next add() needs no new pool */
void h_add_str_fail(void) {
  int32_t a = (int32_t)vin_u32(), b = (int32_t)vin_u32(); uint8_t p[3] = {vin_u8(), vin_u8(), 0};
  struct S_Hist h; memset(&h, 0, sizeof h); w_hist_add_str_fail((uint32_t)a, (uint32_t)b, p, &h);
  VASSERT((h.f5 & 1) == 0 && (h.f2 & 1), "the refused add() reports the failure and sets overflowed()");
  VASSERT((h.f5 & 2) != 0 && h.f4 == h.f3, "the next add() succeeds WITHOUT an allocator call: the slot of the refused add() was given back");
  VASSERT(h.f0 == 4 && h.f1 == 4 && (int32_t)h.f8.e[0] == a && (int32_t)h.f8.e[1] == a && (int32_t)h.f8.e[2] == a && (int32_t)h.f8.e[3] == b, "document intact: [a,a,a,b]");
  VWITNESS("any");
}

/* ---- C13: 2-D copyArray: rows and columns beyond the destination are dropped, cells the document does not have stay untouched */
void h_copyarray_2d_out(void) {
  int32_t a = (int32_t)vin_u32(), b = (int32_t)vin_u32(), x = (int32_t)vin_u32(), c = (int32_t)vin_u32();
  int32_t g[6]; for (unsigned i = 0; i < 6; i++) g[i] = 0x5A5A5A5A;
  w_copyarray_2d_out((uint32_t)a, (uint32_t)b, (uint32_t)x, (uint32_t)c, (uint32_t*)g);
  VASSERT(g[1] == a && g[2] == b, "row 0 receives its first two elements; the third has no cell and is dropped");
  VASSERT(g[3] == c && g[4] == 0x5A5A5A5A, "row 1 receives its single element; the cell without a source element is untouched");
  VASSERT(g[0] == 0x5A5A5A5A && g[5] == 0x5A5A5A5A, "nothing outside the destination is written");
  VWITNESS("any");
}
void h_copyarray_2d_in(void) {
  int32_t a = (int32_t)vin_u32(), b = (int32_t)vin_u32(), c = (int32_t)vin_u32(), d = (int32_t)vin_u32();
  int32_t out[4] = {0, 0, 0, 0}; uint32_t sz[3] = {9, 9, 9};
  unsigned ok = w_copyarray_2d_in((uint32_t)a, (uint32_t)b, (uint32_t)c, (uint32_t)d, (uint32_t*)out, sz);
  VASSERT(ok && sz[0] == 2 && sz[1] == 2 && sz[2] == 2, "two rows of two elements");
  VASSERT(out[0] == a && out[1] == b && out[2] == c && out[3] == d, "every cell at its place");
  VWITNESS("any");
}

/* ---- C04/C06: removing a nested array releases its elements' slots as well; they are reused before any new pool */
void h_nested_remove(void) {
  int32_t a = (int32_t)vin_u32(), b = (int32_t)vin_u32(), c = (int32_t)vin_u32(), d = (int32_t)vin_u32();
  struct S_Hist h; memset(&h, 0, sizeof h); w_hist_nested_remove((uint32_t)a, (uint32_t)b, (uint32_t)c, (uint32_t)d, &h);
  VASSERT(h.f5 == 7, "the three adds succeed");
  VASSERT(h.f4 == h.f3, "without any allocator call: the removed element's slot AND its two children's slots are reused");
  VASSERT(h.f0 == 4 && h.f1 == 4 && (int32_t)h.f8.e[0] == c && (int32_t)h.f8.e[1] == d && (int32_t)h.f8.e[2] == d && (int32_t)h.f8.e[3] == d, "document is [c,d,d,d]");
  VASSERT(!(h.f2 & 1) && h.f6 == 1, "not overflowed; nesting 1");
  VWITNESS("any");
}
