/* C12 [K1]: long mantissas with a negative exponent, make_float cut. Literal skeleton: 25 digits (first one non-zero),
 * then "e-" and three exponent digits. Its value is d.ddd x 10^(24 - E). The exponent-overflow shortcut (which returns
 * +-0 without scaling) may be taken only when the value really is below the double range; in particular a literal whose
 * value is >= 1e-300 must be scaled, with a (mantissa, exponent) pair of the right magnitude. */
#include "vh.h"
#include "numcut.h"
static unsigned g_mf_calls, g_mf_kind; static double g_mf_m; static int32_t g_mf_e;
float CUT_MF_F(float m, uint32_t e) { g_mf_calls++; g_mf_kind = 1; g_mf_m = (double)m; g_mf_e = (int32_t)e; return 1.0f; }
double CUT_MF_D(double m, uint32_t e) { g_mf_calls++; g_mf_kind = 4; g_mf_m = m; g_mf_e = (int32_t)e; return 1.0; }
#define ND 25
void h_pnum_long_negexp(void) {
  uint8_t s[ND + 6]; unsigned pos = 0;
  for (unsigned i = 0; i < ND; i++) { uint8_t c = vin_u8(); VASSUME(c >= '0' && c <= '9'); if (i == 0) VASSUME(c != '0'); s[pos++] = c; }
  s[pos++] = 'e'; s[pos++] = '-';
  unsigned E = 0; for (unsigned i = 0; i < 3; i++) { uint8_t c = vin_u8(); VASSUME(c >= '0' && c <= '9'); s[pos++] = c; E = E * 10 + (c - '0'); }
  s[pos] = 0;
  uint64_t u = 0, i64 = 0; double d = 0;
  int k = (int)w_parse_kind(s, &u, &i64, &d); VOBS(k); VOBS(g_mf_calls);
  VASSERT(k == 1 || k == 4, "a literal with an exponent is a floating kind");
  int magnitude = (int)(ND - 1) - (int)E;     /* decimal exponent of the value d.ddd x 10^magnitude */
  if (magnitude >= -300) {
    VASSERT(g_mf_calls >= 1, "a value of at least 1e-300 is scaled, not flushed to zero by the exponent-overflow shortcut");
    /* mantissa digits kept (dm) plus the exponent handed over must give back the magnitude */
    uint64_t m = (uint64_t)g_mf_m; int dm = 0; uint64_t p = 1; for (int j = 0; j < 19; j++) { if (m >= p) dm = j + 1; p *= 10; }
    VASSERT((double)m == g_mf_m && dm - 1 + g_mf_e == magnitude, "digits(mantissa) - 1 + exponent == decimal magnitude of the literal");
    VWITNESS("scaled");
  } else if (magnitude < -340) {
    VWITNESS("tiny");
  }
}

/* ---- very long mantissas (as<T>() on a string may see any length): '1' followed by NZ zeros, then "e-" and two symbolic
 * exponent digits. The value is 10^(NZ - E); the pair handed to the scaling must have that magnitude: the bookkeeping of
 * dropped digits must not wrap for hundreds of digits. (The digit string is concrete so that the scanner's position stays
 * concrete; the symbolic part is the exponent.) */
#ifndef NZ
#define NZ 154
#endif
void h_pnum_many_digits(void) {
  uint8_t s[NZ + 8]; unsigned pos = 0;
  s[pos++] = '1'; for (unsigned i = 0; i < NZ; i++) s[pos++] = '0';
  s[pos++] = 'e'; s[pos++] = '-';
  unsigned E = 0; for (unsigned i = 0; i < 2; i++) { uint8_t c = vin_u8(); VASSUME(c >= '0' && c <= '9'); s[pos++] = c; E = E * 10 + (c - '0'); }
  s[pos] = 0;
  uint64_t u = 0, i64 = 0; double d = 0;
  int k = (int)w_parse_kind(s, &u, &i64, &d); VOBS(k); VOBS(g_mf_calls);
  VASSERT(k == 1 || k == 4, "floating kind");
  int magnitude = (int)NZ - (int)E;
  VASSERT(g_mf_calls >= 1, "a value between 1e55 and 1e300 is scaled");
  uint64_t m = (uint64_t)g_mf_m; int dm = 0; uint64_t p = 1; for (int j = 0; j < 19; j++) { if (m >= p) dm = j + 1; p *= 10; }
  VASSERT((double)m == g_mf_m && dm - 1 + g_mf_e == magnitude, "digits(mantissa) - 1 + exponent == decimal magnitude of the literal, also after hundreds of dropped digits");
  VWITNESS("any");
}
