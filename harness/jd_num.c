/* C01/C03/C12/C16 [K2]: JsonDeserializer::parseNumericValue - the scan of a numeral into the 64-byte buffer - with
 * parseNumber cut: up to 63 characters are copied verbatim and NUL-terminated, one look-ahead byte at most is consumed,
 * the result kind is the one parseNumber reports. Input: NB number characters (symbolic) followed by a non-number byte. */
#include "jdh.h"
#include UNIT_H
#ifndef NB
#define NB 63
#endif
static uint8_t g_seen[64]; static unsigned g_pn_calls;
struct L_i8_i64_E; 
/* parseNumber(const char*) is cut: the stub copies what it was given and returns "invalid" (kind 0) */
NUMBER_RET CUT_PARSENUMBER(uint8_t* s) { g_pn_calls++; for (unsigned i = 0; i < 64; i++) g_seen[i] = s[i]; NUMBER_RET r; memset(&r, 0, sizeof r); return r; }
void h_pnumval(void) {
  uint8_t in[NB + 2];
  for (unsigned i = 0; i < NB; i++) { uint8_t c = vin_u8(); VASSUME((c >= '0' && c <= '9') || c == '.' || c == 'e' || c == '-' || c == '+' || c == 'E'); in[i] = c; }
  in[NB] = vin_u8(); VASSUME(!((in[NB] >= '0' && in[NB] <= '9') || in[NB] == '.' || in[NB] == 'e' || in[NB] == 'E' || in[NB] == '-' || in[NB] == '+') && in[NB] != 0);
  in[NB + 1] = 'x';
  uint8_t bufcopy[64]; struct Out o = {0}; uint32_t kind = 0; uint64_t bits = 0;
  w_pnum(in, NB + 2, 0, bufcopy, &o, &kind, &bits);
  VOBS(o.code); VOBS(o.consumed);
  VASSERT(g_pn_calls == 1, "parseNumber is called once");
  unsigned kept = NB < 63 ? NB : 63;
  for (unsigned i = 0; i < 63; i++) if (i < kept) VASSERT(g_seen[i] == in[i], "the numeral is handed to parseNumber verbatim (up to 63 characters)");
  VASSERT(g_seen[kept] == 0, "NUL-terminated right after the copied characters");
  VASSERT(o.code == INVALID, "the stub says invalid: reported as InvalidInput");
  VASSERT(o.consumed == kept + 1 && o.latched && o.latch_char == in[kept], "one look-ahead byte, left latched (C16); a numeral longer than 63 characters is cut there");
  for (unsigned i = 0; i < 64; i++) VASSERT(bufcopy[i] == g_seen[i], "the buffer is the one handed to parseNumber; nothing beyond its 64 bytes is touched (CBMC bounds check)");
  VWITNESS("any");
}
