/* C01/C10/C11/C15/C16 [K2]: the DISPATCH of parseVariant<AllowAll>, parseVariant<Filter> and skipVariant with every routine
 * below cut: after the blanks, the first byte alone decides which routine runs; it runs exactly once, on the unconsumed byte,
 * with the caller's nesting limit, and its result is the result. Under a Filter the parsing routine runs iff the filter admits
 * that kind of value (arrays: true or an array filter; objects: true or an object filter; scalars: true only), otherwise the
 * skipping twin runs and the destination stays null; true/false are stored iff scalars are admitted. */
#include "jdh.h"
#include UNIT_H
#ifndef NB
#define NB 2
#endif
#ifndef MODE     /* 0 parseVariant<AllowAll>, 1 parseVariant<Filter> with filter shape FSHAPE, 2 skipVariant */
#define MODE 0
#endif
#ifndef FSHAPE
#define FSHAPE 0
#endif
enum { R_PA = 1, R_PO, R_SA, R_SO, R_PSV, R_SQS, R_SKW, R_PNV, R_SNV };
static uint8_t* g_in; static unsigned g_calls, g_which, g_limit, g_pos, g_latched, g_lchar, g_code, g_has_filter; static uint8_t g_kw[6];
static struct S_AJ__detail__VariantData* g_fdata;
static uint32_t rec(struct S_AJ__detail__JsonDeserializer* d, unsigned which, unsigned limit) {
  g_calls++; g_which = which; g_limit = limit; g_pos = w_jd_pos(d, g_in); g_latched = w_jd_latched(d); g_lchar = (unsigned)w_jd_latch_char(d);
  unsigned code = vin_u8(); VASSUME(code <= 5 && code != EMPTY); g_code = code; return code;
}
uint32_t CUT_PA_ALL(struct S_AJ__detail__JsonDeserializer* d, struct S_AJ__detail__ArrayData* a, uint8_t l) { return rec(d, R_PA, l); }
uint32_t CUT_PA_F(struct S_AJ__detail__JsonDeserializer* d, struct S_AJ__detail__ArrayData* a, struct S_AJ__detail__VariantData* fd, struct S_AJ__detail__ResourceManager* fr, uint8_t l) { g_has_filter = 1; g_fdata = fd; return rec(d, R_PA, l); }
uint32_t CUT_PO_ALL(struct S_AJ__detail__JsonDeserializer* d, struct S_AJ__detail__ObjectData* a, uint8_t l) { return rec(d, R_PO, l); }
uint32_t CUT_PO_F(struct S_AJ__detail__JsonDeserializer* d, struct S_AJ__detail__ObjectData* a, struct S_AJ__detail__VariantData* fd, struct S_AJ__detail__ResourceManager* fr, uint8_t l) { g_has_filter = 1; g_fdata = fd; return rec(d, R_PO, l); }
uint32_t CUT_SA(struct S_AJ__detail__JsonDeserializer* d, uint8_t l) { return rec(d, R_SA, l); }
uint32_t CUT_SO(struct S_AJ__detail__JsonDeserializer* d, uint8_t l) { return rec(d, R_SO, l); }
uint32_t CUT_PSV(struct S_AJ__detail__JsonDeserializer* d, struct S_AJ__detail__VariantData* v) { return rec(d, R_PSV, 999); }
uint32_t CUT_SQS(struct S_AJ__detail__JsonDeserializer* d) { return rec(d, R_SQS, 999); }
uint32_t CUT_SKW(struct S_AJ__detail__JsonDeserializer* d, uint8_t* s) { for (unsigned i = 0; i < 6; i++) { g_kw[i] = s[i]; if (!s[i]) break; } return rec(d, R_SKW, 999); }
uint32_t CUT_PNV(struct S_AJ__detail__JsonDeserializer* d, struct S_AJ__detail__VariantData* v) { return rec(d, R_PNV, 999); }
uint32_t CUT_SNV(struct S_AJ__detail__JsonDeserializer* d) { return rec(d, R_SNV, 999); }
static int kw_is(const char* w) { for (unsigned i = 0; i < 6; i++) { if (g_kw[i] != (uint8_t)w[i]) return 0; if (!w[i]) return 1; } return 0; }

void h_variant_dispatch(void) {
  uint8_t in[NB]; for (unsigned i = 0; i < NB; i++) in[i] = vin_u8();
  uint8_t L = vin_u8(); g_in = in;
  struct Out o = {0}; unsigned kind = 77;
#if MODE == 0
  w_parse_variant_all(in, NB, L, &o, &kind);
  int aArr = 1, aObj = 1, aVal = 1;
#elif MODE == 1
  w_parse_variant_f(in, NB, L, FSHAPE, 0, &o, &kind);
  /* filter shapes: 0 true, 1 false, 2 [true], 3 [false], 4 [], 5 {} */
  int aArr = FSHAPE == 0 || FSHAPE == 2 || FSHAPE == 3 || FSHAPE == 4, aObj = FSHAPE == 0 || FSHAPE == 5, aVal = FSHAPE == 0;
#else
  w_skip_variant(in, NB, L, &o); kind = 0;
  int aArr = 0, aObj = 0, aVal = 0;
#endif
  VOBS(o.code); VOBS(o.consumed); VOBS(kind); VOBS(g_which);
  unsigned i = 0; while (i < NB && is_blank(in[i])) i++;
  if (i == NB || in[i] == 0) {
    VASSERT(g_calls == 0 && o.code == EMPTY && kind == 0, "only blanks: EmptyInput, nothing dispatched, nothing stored");
    VWITNESS("blank"); return;
  }
  uint8_t c = in[i]; unsigned want; int store_bool = -1;
  if (c == '[') want = aArr ? R_PA : R_SA;
  else if (c == '{') want = aObj ? R_PO : R_SO;
  else if (c == '"' || c == '\'') want = aVal ? R_PSV : R_SQS;
  else if (c == 't') { want = R_SKW; if (aVal) store_bool = 1; }
  else if (c == 'f') { want = R_SKW; if (aVal) store_bool = 0; }
  else if (c == 'n') want = R_SKW;
  else want = aVal ? R_PNV : R_SNV;
  VASSERT(g_calls == 1 && g_which == want, "the first non-blank byte and the filter alone select the routine, which runs exactly once");
  VASSERT(g_pos == i + 1 && g_latched == 1 && g_lchar == c, "the routine starts on the unconsumed first byte of the value");
  VASSERT(o.code == g_code, "the routine's result is the result");
  if (want == R_PA || want == R_PO || want == R_SA || want == R_SO) VASSERT(g_limit == L, "containers receive the caller's nesting limit unchanged (they count themselves)");
  if (want == R_SKW) VASSERT(c == 't' ? kw_is("true") : c == 'f' ? kw_is("false") : kw_is("null"), "the keyword to match is the one the first byte announces");
  if (MODE == 1 && (want == R_PA || want == R_PO)) VASSERT(g_has_filter == 1, "the container reader receives the filter");
  if (MODE != 2) {
    unsigned ek = want == R_PA ? 3 : want == R_PO ? 4 : store_bool == 1 ? 2 : store_bool == 0 ? 1 : 0;
    VASSERT(kind == ek, "destination: array/object created iff admitted, true/false stored iff scalars are admitted, otherwise left null");
  }
  if (c == '[' || c == '{') VWITNESS("container"); else if (want == R_SKW) VWITNESS("keyword"); else VWITNESS("scalar");
}
