/* C02 [K3]: serializeJson / measureJson / serializeJsonPretty on fixed document shapes with symbolic payloads and a
 * SYMBOLIC buffer capacity (0..length+2): exactly the first min(cap,len) bytes of the reference text are stored, no byte
 * outside the buffer is written (guard bytes), the terminating NUL is stored iff len < cap, count == measure == len... */
#include "vh.h"
#ifndef UNIT_H
#define UNIT_H "doc.h"
#endif
#include UNIT_H
#define G 0xA5
/* S_Ser: f0 n, f1 measure, f2 npretty, f3 mpretty */
/* small integers only (-255..255): digit printing itself is decided for all values by the writeInteger obligations */
static unsigned put_int(uint8_t* o, int32_t v) { unsigned k = 0; unsigned m = v < 0 ? (unsigned)-v : (unsigned)v; if (v < 0) o[k++] = '-'; if (m >= 100) o[k++] = '0' + m / 100; if (m >= 10) o[k++] = '0' + (m / 10) % 10; o[k++] = '0' + m % 10; return k; }
static unsigned put_str(uint8_t* o, const uint8_t* s, unsigned n) { unsigned k = 0; o[k++] = '"'; for (unsigned i = 0; i < n; i++) { uint8_t c = s[i], e = 0;
    switch (c) { case '"': e = '"'; break; case '\\': e = '\\'; break; case 8: e = 'b'; break; case 12: e = 'f'; break; case 10: e = 'n'; break; case 13: e = 'r'; break; case 9: e = 't'; break; }
    if (c == 0) { o[k++]='\\'; o[k++]='u'; o[k++]='0'; o[k++]='0'; o[k++]='0'; o[k++]='0'; } else if (e) { o[k++] = '\\'; o[k++] = e; } else o[k++] = c; } o[k++] = '"'; return k; }
static void check_buf(const uint8_t* buf, unsigned bufsz, unsigned off, unsigned cap, const uint8_t* ref, unsigned len, uint64_t ret, uint64_t meas) {
  VASSERT(meas == len, "measure == length of the reference text");
  VASSERT(ret == (len < cap ? len : cap), "returned count == min(capacity, length) == bytes produced");
  for (unsigned i = 0; i < bufsz; i++) {
    if (i >= off && i < off + (len < cap ? len : cap)) VASSERT(buf[i] == ref[i - off], "stored bytes are exactly the prefix of the reference text");
    else if (i == off + len && len < cap) VASSERT(buf[i] == 0, "terminating NUL stored iff length < capacity");
    else VASSERT(buf[i] == G, "no byte outside the stored prefix (and terminator) is written");
  }
}
void h_ser_arr(void) {   /* [i,"s0s1",u] */
  int32_t i = (int32_t)vin_u8() - 128; uint32_t u = vin_u8(); uint8_t s[2] = {vin_u8(), vin_u8()};
  uint8_t ref[64]; unsigned len = 0; ref[len++] = '['; len += put_int(ref + len, i); ref[len++] = ','; len += put_str(ref + len, s, 2); ref[len++] = ','; len += put_int(ref + len, u); ref[len++] = ']';
  uint32_t cap = vin_u8(); VASSUME(cap <= len + 2);
  uint8_t buf[40]; memset(buf, G, sizeof buf); uint8_t bufp[8]; struct S_Ser r; memset(&r, 0, sizeof r);
  w_ser_arr_i_s_u((uint32_t)i, s, 2, u, buf + 4, cap, bufp, 0, &r);
  VOBS(r.f0); VOBS(r.f1); VOBSB(buf, 40);
  check_buf(buf, sizeof buf, 4, cap, ref, len, r.f0, r.f1);
  if (cap == len) VWITNESS("exact-fit"); else if (cap < len) VWITNESS("truncated"); else VWITNESS("room");
}
void h_ser_scalar(void) {   /* a single int64 */
  int64_t v = (int64_t)vin_u8() - 128; uint8_t ref[24]; unsigned len = put_int(ref, (int32_t)v);
  uint32_t cap = vin_u8(); VASSUME(cap <= len + 2);
  uint8_t buf[32]; memset(buf, G, sizeof buf); struct S_Ser r; memset(&r, 0, sizeof r);
  w_ser_scalar_i64((uint32_t)(int32_t)v, buf + 4, cap, &r);
  check_buf(buf, sizeof buf, 4, cap, ref, len, r.f0, r.f1); if (cap == len) VWITNESS("exact-fit"); else VWITNESS("other");
}
void h_ser_raw_nonfinite(void) {   /* [raw] verbatim; non-finite numbers print as null */
  uint8_t p[3] = {vin_u8(), vin_u8(), vin_u8()}; uint32_t n = vin_u8() % 4;
  uint8_t ref[8]; unsigned len = 0; ref[len++] = '['; for (unsigned i = 0; i < 3; i++) if (i < n) ref[len++] = p[i]; ref[len++] = ']';
  uint32_t cap = vin_u8(); VASSUME(cap <= len + 2);
  uint8_t buf[16]; memset(buf, G, sizeof buf); struct S_Ser r; memset(&r, 0, sizeof r);
  w_ser_raw(p, n, buf + 4, cap, &r);
  check_buf(buf, sizeof buf, 4, cap, ref, len, r.f0, r.f1);
  uint32_t which = vin_u8() % 3; static const uint8_t nul[7] = "[null]"; memset(buf, G, sizeof buf);
  w_ser_nonfinite(which, buf + 4, 10, &r);
  check_buf(buf, sizeof buf, 4, 10, nul, 6, r.f0, r.f1); VWITNESS("any");
}

/* ---- C08: serializeMsgPack([i,"s0s1",b,nil], buf, cap): one conforming array; bounded buffer receives only the prefix */
void h_mser_arr(void) {
  int32_t i = (int32_t)vin_u8() - 128; uint8_t s[2] = {vin_u8(), vin_u8()}; uint8_t b = vin_u8() & 1;
  uint8_t ref[16]; unsigned len = 0; ref[len++] = 0x94;
  if (i >= 0) ref[len++] = (uint8_t)i; else if (i >= -32) ref[len++] = (uint8_t)i; else { ref[len++] = 0xD0; ref[len++] = (uint8_t)i; }
  ref[len++] = 0xA2; ref[len++] = s[0]; ref[len++] = s[1]; ref[len++] = b ? 0xC3 : 0xC2; ref[len++] = 0xC0;
  uint32_t cap = vin_u8(); VASSUME(cap <= len + 2);
  uint8_t buf[24]; memset(buf, G, sizeof buf); struct S_Ser r; memset(&r, 0, sizeof r);
  w_mser_arr((uint32_t)i, s, 2, b, buf + 4, cap, &r);
  VOBS(r.f0); VOBS(r.f1); VOBSB(buf, 24);
  VASSERT(r.f1 == len, "measureMsgPack == length of the reference encoding");
  VASSERT(r.f0 == (len < cap ? len : cap), "returned count == bytes produced == min(capacity, length)");
  for (unsigned k = 0; k < sizeof buf; k++) { if (k >= 4 && k < 4 + (len < cap ? len : cap)) VASSERT(buf[k] == ref[k - 4], "stored bytes are the prefix of the reference encoding (elements in order)"); else VASSERT(buf[k] == G, "nothing else is written (no terminator for binary output)"); }
  if (cap < len) VWITNESS("truncated"); else VWITNESS("fits");
}

#ifndef BN
#define BN 3
#endif
/* ---- C08: bin / ext values set through the API are emitted with a conforming header and verbatim payload */
void h_bin(void) {
  uint8_t p[4] = {vin_u8(), vin_u8(), vin_u8(), vin_u8()}; const uint64_t n = BN;   /* the size is part of the shape */
  uint8_t out[16]; memset(out, G, 16); struct S_Ser r; memset(&r, 0, sizeof r); uint64_t backn = 0; uint8_t back[4] = {0};
  w_bin(p, n, out + 2, 12, &r, &backn, back);
  VASSERT(r.f0 == n + 2 && r.f1 == n + 2, "bin8: two header bytes + payload; count == measure");
  VASSERT(out[2] == 0xC4 && out[3] == n, "bin8 header with the payload length");
  for (unsigned i = 0; i < 4; i++) if (i < n) { VASSERT(out[4 + i] == p[i], "payload verbatim"); VASSERT(back[i] == p[i], "as<MsgPackBinary>() returns the same bytes"); }
  VASSERT(backn == n, "as<MsgPackBinary>() returns the same size");
  VASSERT(out[1] == G && out[4 + n] == G, "nothing else written"); VWITNESS("any");
}
void h_ext(void) {
  uint8_t p[4] = {vin_u8(), vin_u8(), vin_u8(), vin_u8()}; const uint64_t n = BN; uint8_t type = vin_u8();
  uint8_t out[16]; memset(out, G, 16); struct S_Ser r; memset(&r, 0, sizeof r);
  w_ext(type, p, n, out + 2, 12, &r);
  /* fixext 1/2/4 for these sizes, ext8 otherwise (sizes 0 and 3) */
  unsigned hdr = (n == 1 || n == 2 || n == 4) ? 2 : 3;
  VASSERT(r.f0 == hdr + n && r.f1 == hdr + n, "ext: header + type + payload; count == measure");
  if (hdr == 2) { VASSERT(out[2] == (n == 1 ? 0xD4 : n == 2 ? 0xD5 : 0xD6) && out[3] == type, "fixext header and type"); }
  else { VASSERT(out[2] == 0xC7 && out[3] == n && out[4] == type, "ext8 header, length and type"); }
  for (unsigned i = 0; i < 4; i++) if (i < n) VASSERT(out[2 + hdr + i] == p[i], "payload verbatim");
  VASSERT(out[1] == G && out[2 + hdr + n] == G, "nothing else written"); VWITNESS("any");
}

/* ---- C02: serializeJsonPretty([i,["s0"],[]]): CRLF + two-space indentation per level, empty array as [], same tokens as
 * the compact form; count == measureJsonPretty == length; prefix/guard/NUL discipline for every capacity */
void h_pretty(void) {
  int32_t i = (int32_t)vin_u8() - 128; uint8_t s[1] = {vin_u8()};
  uint8_t ref[64]; unsigned len = 0;
#define LIT(str) do { const char* q__ = str; while (*q__) ref[len++] = (uint8_t)*q__++; } while (0)
  LIT("[\r\n  "); len += put_int(ref + len, i); LIT(",\r\n  [\r\n    "); len += put_str(ref + len, s, 1); LIT("\r\n  ],\r\n  []\r\n]");
  uint32_t cap = vin_u8(); VASSUME(cap <= len + 2);
  uint8_t buf[72]; memset(buf, G, sizeof buf); struct S_Ser r; memset(&r, 0, sizeof r);
  w_pretty_nested((uint32_t)i, s, 1, buf + 4, cap, &r);
  VOBS(r.f2); VOBS(r.f3); VOBSB(buf, 64);
  check_buf(buf, sizeof buf, 4, cap, ref, len, r.f2, r.f3);
  /* compact length = pretty length minus the insignificant whitespace: 6 CRLF (12) + indentation 2+2+4+2+2 (12) */
  VASSERT(r.f1 + 24 == r.f3, "pretty and compact texts differ only by insignificant whitespace (length check)");
  if (cap < len) VWITNESS("truncated"); else VWITNESS("fits");
}

/* ---- C02: a raw value is emitted verbatim (every byte, NUL included); bounded buffer receives the prefix */
#ifndef RAWN
#define RAWN 3
#endif
void h_ser_raw(void) {
  uint8_t p[3] = {vin_u8(), vin_u8(), vin_u8()}; uint32_t n = RAWN;   /* concrete length: a symbolic allocation size makes the heap shape symbolic */
  uint8_t ref[8]; unsigned len = 0; for (unsigned i = 0; i < 3; i++) if (i < n) ref[len++] = p[i];
  uint32_t cap = vin_u8(); VASSUME(cap <= len + 2);
  uint8_t buf[16]; memset(buf, G, sizeof buf); struct S_Ser r; memset(&r, 0, sizeof r);
  w_ser_raw_only(p, n, buf + 4, cap, &r);
  check_buf(buf, sizeof buf, 4, cap, ref, len, r.f0, r.f1); VWITNESS("any");
}
/* ---- C02: custom writer that stops accepting bytes after `room`: count == bytes the sink took == min(room, length) */
void h_ser_custom(void) {
  int32_t i = (int32_t)vin_u8() - 128; uint8_t s[2] = {vin_u8(), vin_u8()};
  uint8_t ref[40]; unsigned len = 0; ref[len++] = '['; len += put_int(ref + len, i); ref[len++] = ','; len += put_str(ref + len, s, 2); ref[len++] = ']';
  uint32_t room = vin_u8(); VASSUME(room <= len + 2);
  uint8_t buf[40]; memset(buf, G, sizeof buf); struct S_Ser r; memset(&r, 0, sizeof r);
  w_ser_custom((uint32_t)i, s, 2, buf + 4, room, &r);
  unsigned m = len < room ? len : room;
  VASSERT(r.f1 == len, "measureJson == length of the text");
  VASSERT(r.f2 == m, "the sink received exactly the first min(room, length) bytes");
  VASSERT(r.f0 == r.f2, "the returned count equals the number of bytes produced (accepted by the writer)");
  for (unsigned k = 0; k < 40; k++) { if (k >= 4 && k < 4 + m) VASSERT(buf[k] == ref[k - 4], "bytes are the prefix of the text"); else VASSERT(buf[k] == G, "nothing else written"); }
  if (room < len) VWITNESS("short"); else VWITNESS("room");
}
