/* C04/C05/C06/C19 [K2 inductive step]: MemoryPoolList::allocSlot from an arbitrary valid state of the pool table
 * (symbolic count / capacity / last-pool usage / table location / allocator failures), tiny geometry given by -D.
 * Invariant Inv: INITIAL <= capacity <= maxPools, capacity in {INITIAL*2^k} U {maxPools}, count <= capacity,
 * table on the heap iff capacity > INITIAL, every pool but the last is full, the last pool (index maxPools-1) is one
 * slot short, a pool whose block could not be allocated has capacity 0. */
#include "vh.h"
#include UNIT_H
/* S_POut: f0 ok f1 id f2 count f3 capacity f4 last_usage f5 last_capacity f6 heap_table f7 allocs f8 max_request f9 maxPools f10 nullSlot f11 poolCap f12 initial */
static int cap_ok(unsigned cap, unsigned I, unsigned M) { if (cap == M || cap == I) return 1;   /* the inline table always has INITIAL entries, even when that exceeds maxPools */ for (unsigned k = 0; k < 10; k++) if (cap == (I << k)) return cap <= M; return 0; }
void h_pool_alloc(void) {
  struct S_POut g; memset(&g, 0, sizeof g); w_pool_alloc(0, 1, 0, 0, 0, 0, &g);      /* read the geometry */
  const unsigned M = g.f9, C = g.f11, I = g.f12, NULLS = g.f10;
  unsigned count = vin_u8(), capacity = vin_u8(), lu = vin_u8(), lc = vin_u8(), fm = vin_u8() & 7;
  VASSUME(cap_ok(capacity, I, M) && capacity >= I && count <= capacity && count <= M);
  unsigned heap = capacity > I;
  const unsigned LASTC = NULLS - (M - 1) * C;   /* the ids left for the last possible pool (C-1 when C divides 2^n) */
  if (count) { VASSUME(lc == 0 || lc == (count == M ? LASTC : C)); VASSUME(lu <= lc); }
  struct S_POut o; memset(&o, 0, sizeof o);
  w_pool_alloc(count, capacity, lu, lc, heap, fm, &o);
  VOBS(o.f0); VOBS(o.f1); VOBS(o.f2); VOBS(o.f3);
  /* Inv is re-established */
  VASSERT(o.f2 <= M, "never more pools than maxPools (slot ids would wrap)");
  VASSERT((o.f3 <= M || o.f3 == I) && o.f3 >= I && cap_ok(o.f3, I, M), "pool-table capacity stays within maxPools (or is the inline capacity)");
  VASSERT(o.f2 <= o.f3, "count <= capacity");
  VASSERT((o.f6 & 1) == (o.f3 > I) || fm, "the table moves to the heap exactly when it outgrows the inline pools");
  if (o.f0 & 1) {
    VASSERT(o.f1 != NULLS, "the NULL_SLOT id is never issued");
    VASSERT(o.f2 >= 1 && o.f4 >= 1 && o.f1 == (o.f2 - 1) * C + (o.f4 - 1), "slot id = pool index * pool capacity + index in pool, without wrap");
    VASSERT(o.f5 == (o.f2 == M ? LASTC : C), "the last possible pool holds exactly the ids that are left below NULL_SLOT");
    if (count && lu < lc) { VASSERT(o.f2 == count && o.f7 == 0, "room in the last pool: no new pool, no allocator call"); VWITNESS("room"); }
    else { VASSERT(o.f2 == count + 1, "exactly one pool added"); if (o.f3 != capacity) VWITNESS("table-grew"); else VWITNESS("pool-added"); }
  } else {
    int full = count == M && lu >= lc;
    VASSERT(full || fm != 0 || (count && lc == 0 && 0), "allocSlot fails only when every id is in use or the allocator failed");
    if (full) { VASSERT(o.f2 == count && o.f3 == capacity && o.f7 == 0, "full: clean failure, nothing changed, no allocator call"); VWITNESS("full"); }
  }
}
void h_strnode(void) {
  uint64_t len = vin_u64(); uint64_t req = 0, stored = 0;
  unsigned ok = w_strnode_create(len, &req, &stored) & 1; uint64_t maxlen = w_strnode_maxlen(), ovh = w_strnode_overhead();
  VOBS(ok); VOBS(req); VOBS(stored);
  if (len > maxlen) { VASSERT(!ok && req == 0, "a length above the configured maximum is refused before any allocation"); VWITNESS("toolong"); }
  else { VASSERT(req == len + ovh, "requests exactly length + header + terminator"); if (ok) { VASSERT(stored == len, "length stored without narrowing loss"); VWITNESS("ok"); } }
}

void h_strnode_resize(void) {
  uint64_t oldlen = vin_u8() % 8, newlen = vin_u64(); unsigned fm = vin_u8() & 1; uint64_t stored = 0; uint32_t frees = 0;
  unsigned r = w_strnode_resize(oldlen, newlen, fm, &stored, &frees); uint64_t maxlen = w_strnode_maxlen();
  VASSUME(r != 2);
  if (r == 1) { VASSERT(stored == newlen && newlen <= maxlen && frees == 0, "resized: new length stored, nothing released"); VWITNESS("ok"); }
  else { VASSERT(frees == 1, "a failed resize (length above the maximum, or allocator failure) releases the old node exactly once"); if (newlen > maxlen) VWITNESS("toolong"); else VWITNESS("allocfail"); }
}
void h_widths(void) { VASSERT(w_refs_width() == w_slotid_width(), "the reference counter is as wide as a slot id (it can count one reference per slot)"); VWITNESS("any"); }
#ifndef HEAPT
#define HEAPT 0
#endif
void h_pool_clear(void) {
  struct S_POut g; memset(&g, 0, sizeof g); w_pool_clear(0, 1, 0, 0, &g); const unsigned M = g.f9, I = g.f12, NULLS = g.f10;
  unsigned count = vin_u8(), capacity = vin_u8(), fl = vin_u8();
  VASSUME(cap_ok(capacity, I, M) && capacity >= I && count <= capacity && count <= M && count <= 3);   /* the per-pool destroy loop is bounded to 3 pools here */
  const unsigned heap = HEAPT; VASSUME(heap == (capacity > I));
  struct S_POut o; memset(&o, 0, sizeof o); w_pool_clear(count, capacity, heap, fl, &o);
  VASSERT(o.f2 == 0 && o.f1 == NULLS, "clear(): no pool left, free list empty");
  VASSERT(!(o.f6 & 1) && o.f3 == I, "clear(): the table is the inline one again and its capacity is the inline capacity");
  VASSERT(o.f7 == (heap ? 1u : 0u), "the heap table is released exactly once (pool blocks were not allocated in this state)");
  if (heap) VWITNESS("heap"); else VWITNESS("inline");
}
void h_pool_swap(void) {
  unsigned ca = vin_u8() % 3, cb = vin_u8() % 3, fa = vin_u8(), fb = vin_u8();
  struct S_POut a, b; memset(&a, 0, sizeof a); memset(&b, 0, sizeof b); w_pool_swap(ca, fa, cb, fb, &a, &b);
  VASSERT(a.f2 == cb && b.f2 == ca, "pool counts exchanged"); VASSERT(a.f1 == fb && b.f1 == fa, "free lists exchanged (released slots follow their pools)");
  VASSERT(a.f4 == 20 && b.f4 == 10, "inline pool descriptors exchanged"); VASSERT(!(a.f6 & 1) && !(b.f6 & 1), "both still use their own inline table");
  VWITNESS("any");
}

/* ---- free list and id arithmetic: getSlot(id) addresses pool id / C, index id % C; a released slot is the next one issued,
 * with the same id, without any allocator call (C06) */
void h_pool_free_alloc(void) {
  struct S_POut g; memset(&g, 0, sizeof g); w_pool_alloc(0, 1, 0, 0, 0, 0, &g); const unsigned C = g.f11, I = g.f12;
  unsigned count = 1 + vin_u8() % (I < 4 ? I : 4), lu = vin_u8(), id = vin_u8();
  VASSUME(lu >= 1 && lu <= C); VASSUME(id < (count - 1) * C + lu);       /* id of a slot in use */
  struct S_POut o; memset(&o, 0, sizeof o); w_pool_free_alloc(count, lu, id, &o);
  VASSERT(o.f0 & 1, "the released slot is handed out again (same address)"); VASSERT(o.f1 == id, "with the same id");
  VASSERT(o.f4 == id % C, "getSlot(id) addresses index id % POOL_CAPACITY of pool id / POOL_CAPACITY");
  VASSERT(o.f7 == 0 && o.f2 == count, "no allocator call, no new pool");
  if (count > 1) VWITNESS("multi"); else VWITNESS("single");
}

/* ---- shrinkToFit from any valid table state: afterwards capacity_ is the number of entries of the table block that is
 * kept (so that the next addPool grows the table before writing past it), the last pool's capacity is its usage */
void h_pool_shrink(void) {
  struct S_POut g; memset(&g, 0, sizeof g); w_pool_clear(0, 1, 0, 0, &g); const unsigned M = g.f9, I = g.f12;
  struct S_POut g2; memset(&g2, 0, sizeof g2); w_pool_alloc(0, 1, 0, 0, 0, 0, &g2); const unsigned C = g2.f11;
  unsigned count = vin_u8(), capacity = vin_u8(), lu = vin_u8();
  VASSUME(cap_ok(capacity, I, M) && capacity >= I && count <= capacity && count <= M && count <= 3 && lu <= C);
  const unsigned heap = HEAPT; VASSUME(heap == (capacity > I));
  struct S_POut o; memset(&o, 0, sizeof o); w_pool_shrink(count, capacity, heap, lu, &o);
  VASSERT(o.f2 == count, "no pool appears or disappears");
  if (heap) VASSERT(o.f3 == count || (count == capacity && o.f3 == capacity), "heap table: the recorded capacity is the size of the block that was kept");
  else VASSERT(o.f3 == capacity && !(o.f6 & 1), "inline table untouched");
  VASSERT(o.f3 >= o.f2, "capacity never below the number of pools");
  if (count) VASSERT(o.f4 == lu && o.f5 == lu, "the last pool is trimmed to its usage");
  if (heap) VWITNESS("heap"); else VWITNESS("inline");
}
