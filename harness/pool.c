/* C04/C05/C06/C19 [K2 inductive step]: MemoryPoolList::allocSlot from an arbitrary valid state of the pool table
 * (symbolic count / capacity / last-pool usage / table location / allocator failures), tiny geometry given by -D.
 * Invariant Inv: INITIAL <= capacity <= maxPools, capacity in {INITIAL*2^k} U {maxPools}, count <= capacity,
 * table on the heap iff capacity > INITIAL, every pool but the last is full, the last pool (index maxPools-1) is one
 * slot short, a pool whose block could not be allocated has capacity 0. */
#include "vh.h"
#include UNIT_H
/* S_POut: f0 ok f1 id f2 count f3 capacity f4 last_usage f5 last_capacity f6 heap_table f7 allocs f8 max_request f9 maxPools f10 nullSlot f11 poolCap f12 initial */
static int cap_ok(unsigned cap, unsigned I, unsigned M) { if (cap == M) return 1; for (unsigned k = 0; k < 10; k++) if (cap == (I << k)) return cap <= M; return 0; }
void h_pool_alloc(void) {
  struct S_POut g; memset(&g, 0, sizeof g); w_pool_alloc(0, 1, 0, 0, 0, 0, &g);      /* read the geometry */
  const unsigned M = g.f9, C = g.f11, I = g.f12, NULLS = g.f10;
  unsigned count = vin_u8(), capacity = vin_u8(), lu = vin_u8(), lc = vin_u8(), fm = vin_u8() & 7;
  VASSUME(I <= M);
  VASSUME(cap_ok(capacity, I, M) && capacity >= I && count <= capacity);
  unsigned heap = capacity > I;
  if (count) { VASSUME(lc == 0 || lc == (count == M ? C - 1 : C)); VASSUME(lu <= lc); }
  struct S_POut o; memset(&o, 0, sizeof o);
  w_pool_alloc(count, capacity, lu, lc, heap, fm, &o);
  VOBS(o.f0); VOBS(o.f1); VOBS(o.f2); VOBS(o.f3);
  /* Inv is re-established */
  VASSERT(o.f2 <= M, "never more pools than maxPools (slot ids would wrap)");
  VASSERT(o.f3 <= M && o.f3 >= I && cap_ok(o.f3, I, M), "pool-table capacity stays within maxPools");
  VASSERT(o.f2 <= o.f3, "count <= capacity");
  VASSERT((o.f6 & 1) == (o.f3 > I) || fm, "the table moves to the heap exactly when it outgrows the inline pools");
  if (o.f0 & 1) {
    VASSERT(o.f1 != NULLS, "the NULL_SLOT id is never issued");
    VASSERT(o.f2 >= 1 && o.f4 >= 1 && o.f1 == (o.f2 - 1) * C + (o.f4 - 1), "slot id = pool index * pool capacity + index in pool, without wrap");
    VASSERT(o.f5 == (o.f2 == M ? C - 1 : C), "the last possible pool is one slot short");
    if (count && lu < lc) { VASSERT(o.f2 == count && o.f7 == 0, "room in the last pool: no new pool, no allocator call"); VWITNESS("room"); }
    else { VASSERT(o.f2 == count + 1, "exactly one pool added"); if (o.f3 != capacity) VWITNESS("table-grew"); else VWITNESS("pool-added"); }
  } else {
    int full = count == M && lu >= lc;
    VASSERT(full || fm != 0 || (count && lc == 0 && 0), "allocSlot fails only when every id is in use or the allocator failed");
    if (full) { VASSERT(o.f2 == count && o.f3 == capacity && o.f7 == 0, "full: clean failure, nothing changed, no allocator call"); VWITNESS("full"); }
  }
}
void h_strnode(void) {
  uint64_t len = vin_u64(); uint64_t req = 0, stored = 0;
  unsigned ok = w_strnode_create(len, &req, &stored) & 1; uint64_t maxlen = w_strnode_maxlen(), ovh = w_strnode_overhead();
  VOBS(ok); VOBS(req); VOBS(stored);
  if (len > maxlen) { VASSERT(!ok && req == 0, "a length above the configured maximum is refused before any allocation"); VWITNESS("toolong"); }
  else { VASSERT(req == len + ovh, "requests exactly length + header + terminator"); if (ok) { VASSERT(stored == len, "length stored without narrowing loss"); VWITNESS("ok"); } }
}
