/* C14/C18 [K1]: string and raw comparison kernels on ALL byte strings of <= NS bytes (NUL and high-bit bytes included) */
#include "vh.h"
#include "num.h"
#ifndef NS
#define NS 3
#endif
#define LESS 4
#define GREATER 2
#define EQUAL 1
static int same(const uint8_t* a, unsigned na, const uint8_t* b, unsigned nb) { if (na != nb) return 0; for (unsigned i = 0; i < NS; i++) if (i < na && a[i] != b[i]) return 0; return 1; }
static void mk(uint8_t* a, uint32_t* na) { for (unsigned i = 0; i < NS; i++) a[i] = vin_u8(); a[NS] = 0; *na = vin_u32(); VASSUME(*na <= NS); }
void h_rawcmp(void) {
  uint8_t a[NS + 1], b[NS + 1]; uint32_t na, nb; mk(a, &na); mk(b, &nb);
  int r = (int)w_rawcmp(a, na, b, nb), r2 = (int)w_rawcmp(b, nb, a, na); VOBS(r); VOBS(r2);
  VASSERT((r == EQUAL) == same(a, na, b, nb), "raw values are equal only when their bytes are identical (same length)");
  VASSERT((r == EQUAL) == (r2 == EQUAL) && (r == LESS) == (r2 == GREATER) && (r == GREATER) == (r2 == LESS), "swapping operands mirrors the result");
  if (same(a, na, b, nb)) VWITNESS("eq"); else if (na != nb) VWITNESS("lendiff"); 
}
void h_strcmp(void) {
  uint8_t a[NS + 1], b[NS + 1]; uint32_t na, nb; mk(a, &na); mk(b, &nb);
  int eq = same(a, na, b, nb);
  int c1 = (int32_t)w_strcmp_sized(a, na, b, nb), c2 = (int32_t)w_strcmp_sized(b, nb, a, na), c3 = (int32_t)w_strcmp_js(a, na, b, nb); VOBS(c1); VOBS(c2); VOBS(c3);
  VASSERT((c1 == 0) == eq && (c3 == 0) == eq, "stringCompare == 0 iff same length and bytes");
  VASSERT((c1 < 0) == (c2 > 0) && (c1 > 0) == (c2 < 0), "antisymmetric");
  VASSERT((c1 < 0) == (c3 < 0), "sized and JsonString adapters order alike");
  VASSERT((w_streq_sized(a, na, b, nb) & 1) == eq, "stringEquals(sized,sized) iff identical");
  int j = (int)w_jscmp(a, na, b, nb), j2 = (int)w_jscmp(b, nb, a, na); VOBS(j);
  VASSERT((j == EQUAL) == eq, "variant string vs string: equal iff identical bytes");
  VASSERT((j == LESS) == (j2 == GREATER) && (j == GREATER) == (j2 == LESS), "swapping operands mirrors the result");
  /* zero-terminated views: the string ends at the first NUL */
  unsigned za = 0, zb = 0; { int s = 0; for (unsigned i = 0; i <= NS; i++) if (!s) { if (a[i] == 0) s = 1; else za++; } } { int s = 0; for (unsigned i = 0; i <= NS; i++) if (!s) { if (b[i] == 0) s = 1; else zb++; } }
  VASSERT((w_streq_zt_sized(a, b, nb) & 1) == same(a, za, b, nb), "zero-terminated vs sized: equal iff the C string equals the sized bytes");
  VASSERT((w_streq_sized_zt(a, na, b) & 1) == same(a, na, b, zb), "sized vs zero-terminated");
  VASSERT((w_streq_zt_zt(a, b) & 1) == same(a, za, b, zb), "zero-terminated vs zero-terminated");
  VASSERT(((int32_t)w_strcmp_zt_sized(a, b, nb) == 0) == same(a, za, b, nb) && ((int32_t)w_strcmp_sized_zt(a, na, b) == 0) == same(a, na, b, zb), "mixed-adapter compare == 0 iff equal");
  if (eq) VWITNESS("eq"); else VWITNESS("ne");
}
