/* C16/C03/C02 [K2, environment stubbed]: the std::istream reader and std::ostream writer adapters. The stream member
 * functions are the environment: the harness defines them as a stream that behaves as the C++ standard allows.
 *   istream::read(buf,n)     blocks until n bytes or end of stream: delivers k = min(n, remaining), sets gcount = k
 *   istream::readsome(buf,n) delivers only what is IMMEDIATELY available: any r <= min(n, remaining) (lazily filled buffers give 0)
 *   istream::get()           next byte or EOF (-1)
 *   ostream::put(c)          unformatted: appends exactly c;   ostream::write(s,n) appends exactly the n bytes
 *   operator<<(ostream&, char) formatted: honours width() (pads with width-1 fill characters), then resets the width
 * The adapters must hand the deserializer exactly the bytes the stream delivers, in order, and report exactly their number;
 * the writer must put exactly the bytes it was given, whatever the formatting state of the stream. */
#include "vh.h"
#include "stdstream.h"
#define CAP 6
static uint8_t g_src[CAP]; static unsigned g_remaining, g_spos; static unsigned g_read_calls, g_get_calls, g_readsome_calls; static uint64_t g_req;
static struct S_std__basic_istream g_is; static struct S_std__basic_ostream g_os;
static uint8_t g_sink[16]; static unsigned g_sunk, g_width;
struct S_std__basic_istream* _ZNSi4readEPcl(struct S_std__basic_istream* s, uint8_t* buf, uint64_t n) {
  g_read_calls++; g_req = n; unsigned k = n < g_remaining ? (unsigned)n : g_remaining;
  for (unsigned i = 0; i < CAP; i++) if (i < k) buf[i] = g_src[g_spos + i];
  g_spos += k; g_remaining -= k; s->f1 = k; return s;
}
uint64_t _ZNSi8readsomeEPcl(struct S_std__basic_istream* s, uint8_t* buf, uint64_t n) {
  g_readsome_calls++; unsigned lim = n < g_remaining ? (unsigned)n : g_remaining; unsigned r = vin_u8(); VASSUME(r <= lim);
  for (unsigned i = 0; i < CAP; i++) if (i < r) buf[i] = g_src[g_spos + i];
  g_spos += r; g_remaining -= r; s->f1 = r; return r;
}
uint32_t _ZNSi3getEv(struct S_std__basic_istream* s) {
  g_get_calls++; if (!g_remaining) { s->f1 = 0; return 0xFFFFFFFFu; }
  uint8_t c = g_src[g_spos++]; g_remaining--; s->f1 = 1; return c;
}
static void sink(uint8_t c) { if (g_sunk < 16) g_sink[g_sunk] = c; g_sunk++; }
struct S_std__basic_ostream* _ZNSo3putEc(struct S_std__basic_ostream* s, int8_t c) { sink((uint8_t)c); return s; }
struct S_std__basic_ostream* _ZNSo5writeEPKcl(struct S_std__basic_ostream* s, uint8_t* p, uint64_t n) { for (unsigned i = 0; i < CAP; i++) if (i < n) sink(p[i]); return s; }
struct S_std__basic_ostream* _ZStlsISt11char_traitsIcEERSt13basic_ostreamIcT_ES5_c(struct S_std__basic_ostream* s, int8_t c) {
  for (unsigned i = 1; i < 4; i++) if (i < g_width) sink(' ');
  sink((uint8_t)c); g_width = 0; return s;
}
/* libstdc++ implements the formatted inserters with this helper: pads up to width(), writes the n characters, resets the width */
struct S_std__basic_ostream* _ZSt16__ostream_insertIcSt11char_traitsIcEERSt13basic_ostreamIT_T0_ES6_PKS3_l(struct S_std__basic_ostream* s, uint8_t* p, uint64_t n) {
  for (unsigned i = 0; i < 4; i++) if (i + n < g_width) sink(' ');
  for (unsigned i = 0; i < CAP; i++) if (i < n) sink(p[i]);
  g_width = 0; return s;
}

void h_isr_readbytes(void) {
  for (unsigned i = 0; i < CAP; i++) g_src[i] = vin_u8();
  unsigned avail = vin_u8(), n = vin_u8(); VASSUME(avail <= CAP && n <= CAP); g_remaining = avail; g_spos = 0;
  uint8_t buf[CAP + 2]; memset(buf, 0xA5, sizeof buf);
  uint64_t r = w_isr_readbytes(&g_is, buf + 1, n);
  unsigned k = n < avail ? n : avail;
  VASSERT(r == k, "readBytes returns exactly the number of bytes the stream delivers before n bytes or its end: min(n, remaining)");
  VASSERT(g_remaining == avail - k, "exactly those bytes are taken from the stream, none beyond the request");
  for (unsigned i = 0; i < CAP + 2; i++) { if (i >= 1 && i < 1 + k) VASSERT(buf[i] == g_src[i - 1], "bytes in order"); else VASSERT(buf[i] == 0xA5, "nothing else written"); }
  if (avail < n) VWITNESS("short-stream"); else VWITNESS("enough");
}
void h_isr_read(void) {
  for (unsigned i = 0; i < CAP; i++) g_src[i] = vin_u8();
  unsigned avail = vin_u8() % 3; g_remaining = avail; g_spos = 0;
  uint32_t a = w_isr_read(&g_is), b = w_isr_read(&g_is);
  VASSERT(a == (avail >= 1 ? (uint32_t)g_src[0] : 0xFFFFFFFFu), "read(): the next byte as a non-negative value, or a negative value at the end");
  VASSERT(b == (avail >= 2 ? (uint32_t)g_src[1] : 0xFFFFFFFFu), "read(): one byte per call, in order");
  VASSERT(g_get_calls == 2 && g_read_calls == 0, "one stream access per byte: nothing is read ahead");
  VWITNESS("any");
}
void h_osw(void) {
  uint8_t c = vin_u8(), s[CAP]; for (unsigned i = 0; i < CAP; i++) s[i] = vin_u8();
  unsigned n = vin_u8(); VASSUME(n <= CAP); g_width = vin_u8() % 4; g_sunk = 0;
  uint64_t r1 = w_osw_put(&g_os, c);
  uint64_t r2 = w_osw_write(&g_os, s, n);
  VASSERT(r1 == 1 && r2 == n, "the counts returned are the bytes produced");
  VASSERT(g_sunk == 1 + n && g_sink[0] == c, "exactly the byte given reaches the stream, whatever its formatting state (width)");
  for (unsigned i = 0; i < CAP; i++) if (i < n) VASSERT(g_sink[1 + i] == s[i], "then exactly the n bytes, in order");
  VWITNESS("any");
}
