/* C01/C10/C16 [K2]: JsonDeserializer::parse() = parseVariant (cut) + the trailing-character rule after a number.
 * Property: once the top-level value is complete, whatever follows does not change the result (NDJSON: "42\n43\n"). */
#include "jdh.h"
#include UNIT_H
#ifndef NB
#define NB 3
#endif
static uint8_t* g_in; static unsigned g_isnum, g_mode, g_code, g_calls; static uint8_t g_limit;
uint32_t CUT_PV_ALL(struct S_AJ__detail__JsonDeserializer* d, struct S_AJ__detail__VariantData* v, uint8_t limit) {
  g_calls++; g_limit = limit;
  unsigned rem = w_jd_remaining(d);
  unsigned k = vin_u8(), mode = vin_u8(), code = vin_u8(), isnum = vin_u8() & 1;
  VASSUME(k <= rem && k >= 1 && mode <= 2 && code <= 5);
  /* contract of a successful child: a number leaves its look-ahead byte latched (or hits the end of input); every other
     value is consumed exactly, nothing latched */
  if (code == OK) VASSUME(isnum ? (mode == 1 || mode == 2) : mode == 0);
  if (code == OK) { if (isnum) w_var_mark(v, 42); else w_var_setbool(v, 1); }
  w_jd_child_effect(d, k, mode);
  g_isnum = isnum; g_mode = mode; g_code = code;
  return code;
}
#ifndef KF_GARBAGE   /* 1: only the region of the known finding (number followed by a non-blank byte) */
#define KF_GARBAGE 0
#endif
void h_parse_top(void) {
  uint8_t in[NB]; for (unsigned i = 0; i < NB; i++) in[i] = vin_u8();
  uint8_t L = vin_u8(); g_in = in;
  struct Out o = {0};
  w_parse_top(in, NB, L, &o); VOBS(o.code); VOBS(o.consumed);
  VASSERT(g_calls == 1 && g_limit == L, "the top-level value is parsed once, with the caller's nesting limit");
  int garbage_after_number = g_code == OK && g_isnum && g_mode == 1 && o.latch_char != 0 && !is_blank((uint8_t)o.latch_char);
#if KF_GARBAGE
  VASSUME(garbage_after_number);
#else
  VASSUME(!garbage_after_number);   /* excluded: listed in known_findings.txt (kept InvalidInput by the pinned tests 6a9 / 1, / 2] / 3}) */
#endif
  VASSERT(o.code == g_code, "the result is the top-level value's result: bytes after a complete value are not examined");
  if (g_code == OK && g_isnum && g_mode == 1) { VASSERT(o.latched == 1, "at most one byte beyond a number is consumed, and it stays latched"); VWITNESS("number-then-byte"); }
  if (g_code == OK && !g_isnum) { VASSERT(o.latched == 0, "no look-ahead after a non-number"); VWITNESS("other"); }
}
