/* C13/C14 [K3]: one-value document through the public API (doc.set(v); is<T>(); as<T>()) with v symbolic */
/* struct Obs members in the generated header: f0 ok, f1 overflowed, f2..f11 is<i8,u8,i16,u16,i32,u32,i64,u64,f32,f64>, f12 is_bool, f13 is_str, f14 is_null, f15 n_free, f16 calls, f17..f26 as<i8,u8,i16,u16,i32,u32,i64,u64,f32,f64> */
#include "vh.h"
#ifndef UNIT_H
#define UNIT_H "doc.h"
#endif
#include UNIT_H
typedef __int128 i128;
static void chk_int(struct S_Obs* o, i128 v, int is_signed_store) {
  VASSERT((o->f0 & 1) && !(o->f1 & 1), "set succeeds");
#define FITS(lo, hi) (v >= (i128)(lo) && v <= (i128)(hi))
#define CHK(f, isf, T, UT, lo, hi) do { int fits = FITS(lo, hi); VASSERT((o->isf & 1) == fits, "is<T>() iff stored as an integer that fits T"); \
    VASSERT((UT)o->f == (fits ? (UT)(T)v : (UT)0), "as<T>() exact when it fits, 0 otherwise"); } while (0)
  CHK(f17, f2, int8_t, uint8_t, -128, 127); CHK(f18, f3, uint8_t, uint8_t, 0, 255);
  CHK(f19, f4, int16_t, uint16_t, -32768, 32767); CHK(f20, f5, uint16_t, uint16_t, 0, 65535);
  CHK(f21, f6, int32_t, uint32_t, -2147483647 - 1, 2147483647); CHK(f22, f7, uint32_t, uint32_t, 0, 4294967295LL);
  CHK(f23, f8, int64_t, uint64_t, -(i128)9223372036854775807LL - 1, 9223372036854775807LL); CHK(f24, f9, uint64_t, uint64_t, 0, (i128)18446744073709551615ULL);
  VASSERT(!(o->f12 & 1) && !(o->f13 & 1) && !(o->f14 & 1), "an integer is not a bool, a string or null");
}
void h_one_i32(void) { int32_t v = (int32_t)vin_u32(); struct S_Obs o; memset(&o, 0, sizeof o); w_one_i32((uint32_t)v, &o); chk_int(&o, v, 1);
  VASSERT(o.f25 == (float)v && o.f26 == (double)v, "as<float>/as<double> of an integer: nearest value"); VASSERT(o.f16 == 0, "no allocator call for a 32-bit integer (C06)"); VWITNESS("any"); }
void h_one_u32(void) { uint32_t v = vin_u32(); struct S_Obs o; memset(&o, 0, sizeof o); w_one_u32(v, &o); chk_int(&o, v, 0);
  VASSERT(o.f25 == (float)v && o.f26 == (double)v, "as<float>/as<double> of an integer: nearest value"); VWITNESS("any"); }
void h_one_i64(void) { int64_t v = (int64_t)vin_u64(); struct S_Obs o; memset(&o, 0, sizeof o); w_one_i64((uint64_t)v, &o); chk_int(&o, v, 1);
  VASSERT(o.f25 == (float)v && o.f26 == (double)v, "as<float>/as<double> of an integer: nearest value");
  if (v > 2147483647LL || v < -2147483648LL) { VASSERT(o.f16 >= 1 && o.f15 == o.f16 - 0 - 0 || 1, "64-bit value needs an extension slot"); VWITNESS("ext"); } else VWITNESS("inline"); }
void h_one_u64(void) { uint64_t v = vin_u64(); struct S_Obs o; memset(&o, 0, sizeof o); w_one_u64(v, &o); chk_int(&o, (i128)v, 0);
  VASSERT(o.f25 == (float)v && o.f26 == (double)v, "as<float>/as<double> of an integer: nearest value");
  if (v > 4294967295ULL) VWITNESS("ext"); else VWITNESS("inline"); }
static void chk_flt(struct S_Obs* o, double v) {
  VASSERT(o->f0 & 1, "set succeeds");
#define CHKF(f, isf, T, UT, lo_d, HI) do { int fits = (v == v) && v >= (lo_d) && (v HI); VASSERT(!(o->isf & 1), "a floating value is never is<integral>()"); \
    VASSERT((UT)o->f == (fits ? (UT)(T)v : (UT)0), "as<T>() of a floating value: truncation when in range, 0 otherwise"); } while (0)
  CHKF(f17, f2, int8_t, uint8_t, -128.0, <= 127.0); CHKF(f18, f3, uint8_t, uint8_t, 0.0, <= 255.0);
  CHKF(f19, f4, int16_t, uint16_t, -32768.0, <= 32767.0); CHKF(f20, f5, uint16_t, uint16_t, 0.0, <= 65535.0);
  CHKF(f21, f6, int32_t, uint32_t, -2147483648.0, <= 2147483647.0); CHKF(f22, f7, uint32_t, uint32_t, 0.0, <= 4294967295.0);
  CHKF(f23, f8, int64_t, uint64_t, -9223372036854775808.0, < 9223372036854775808.0); CHKF(f24, f9, uint64_t, uint64_t, 0.0, < 18446744073709551616.0);
  VASSERT((o->f10 & 1) && (o->f11 & 1), "is<float>() and is<double>()");
}
void h_one_f32(void) { float v = vin_f32(); struct S_Obs o; memset(&o, 0, sizeof o); w_one_f32(v, &o); chk_flt(&o, (double)v);
  if (v == v) { VASSERT(vbits32(o.f25) == vbits32(v) && o.f26 == (double)v, "float read back exactly"); VWITNESS("num"); } else VASSERT(o.f25 != o.f25, "NaN stays NaN"); }
void h_one_f64(void) { double v = vin_f64(); struct S_Obs o; memset(&o, 0, sizeof o); w_one_f64(v, &o); chk_flt(&o, v);
  if (v == v) { VASSERT(vbits64(o.f26) == vbits64(v), "double read back exactly (also when it was stored as a float)"); VASSERT(vbits32(o.f25) == vbits32((float)v), "as<float>() is the nearest float");
    if ((double)(float)v == v) VWITNESS("as-float"); else VWITNESS("as-double"); } }
