/* C20 [frame check]: in the unit built with the store hook, EVERY store instruction of the translated library code (and the
 * destination of every memcpy/memset) carries the assertion "the target is not a mutable global object". The kernels are
 * driven with symbolic inputs; any function-level static buffer / cache / registry that one of them writes makes the
 * assertion fail with concrete inputs. Shared state that is only ever READ (constant tables) is harmless for threads. */
#include "vh.h"
#include UNIT_H
float CUT_MF_F(float m, uint32_t e) { return vin_f32(); }
double CUT_MF_D(double m, uint32_t e) { return vin_f64(); }
void h_frame_kernels(void) {
  uint8_t buf[32], s[6]; uint64_t ku = 0, ki = 0; double kd = 0; uint8_t utf[8]; uint32_t done = 0;
  w_wi_u64(vin_u64(), buf, 24); w_wi_i64(vin_u64(), buf, 24); w_wi_u32(vin_u32(), buf, 24); w_wi_i16(vin_u16(), buf, 24);
  w_wdec(vin_u32(), 6, buf, 24); w_wchar(vin_u8(), buf, 8); w_wbool(vin_u8() & 1, buf, 8);
  for (unsigned i = 0; i < 5; i++) s[i] = vin_u8(); s[5] = 0;
  w_wstr_n(s, 3, buf, 24); w_wstr_z(s, buf, 24);
  w_parse_kind(s, &ku, &ki, &kd);
  w_utf8(vin_u32() & 0x1FFFFF, utf); w_utf16_units(vin_u16(), vin_u16(), 1, utf, &done);
  w_escape(vin_u8()); w_unescape(vin_u8());
  (void)w_err_cstr(vin_u8() % 6);
  w_cvt_f64_i32(vin_f64()); w_cmp_u64_i32(vin_u64(), vin_u32());
  w_strcmp_sized(s, 2, s + 2, 3); w_rawcmp(s, 2, s + 2, 2);
  VWITNESS("end");
}
