/* C10/C03/C16 [K2]: leaf scanners of JsonDeserializer against grammar recognisers written here */
#include "jdh.h"
#include UNIT_H
#ifndef NB
#define NB 4
#endif
#ifndef COMMENTS
#define COMMENTS 0
#endif
#ifndef NANINF
#define NANINF 0
#endif
static inline uint8_t at(const uint8_t* in, unsigned i) { return i < NB ? in[i] : 0; }

/* ---- character classes, all 256 characters */
void h_charclasses(void) {
  uint8_t c = vin_u8();
  int digit = c >= '0' && c <= '9', upper = c >= 'A' && c <= 'Z', lower = c >= 'a' && c <= 'z';
  int num = digit || c == '+' || c == '-' || c == '.' || (NANINF ? (upper || lower) : (c == 'e' || c == 'E'));
  VASSERT((w_cbn(c) & 1) == num, "canBeInNumber: digits + - . e E (letters only when NaN/Infinity are enabled)");
  int idc = digit || upper || (c >= '_' && c <= 'z');
  VASSERT((w_cbnqs(c) & 1) == idc, "canBeInNonQuotedString: [0-9A-Z_`a-z]");
  VASSERT((w_isq(c) & 1) == (c == '"' || c == '\''), "isQuote");
  if (num) VWITNESS("num"); else VWITNESS("nonnum");
}

/* ---- parseHex4 over all 4-byte inputs (plus truncation through the bounded reader) */
void h_hex4(void) {
  uint8_t in[4]; for (unsigned i = 0; i < 4; i++) in[i] = vin_u8();
  uint32_t n = vin_u32(); VASSUME(n <= 4);
  struct Out o = {0}; w_hex4(in, n, &o); VOBS(o.code); VOBS(o.aux); VOBS(o.consumed);
  int code = -1; uint32_t v = 0; unsigned used = 0;
  for (unsigned i = 0; i < 4; i++) if (code < 0) {
    uint8_t c = i < n ? in[i] : 0;
    if (c == 0) { code = INCOMPLETE; used = i + 1; } else if (!is_hex(c)) { code = INVALID; used = i + 1; } else { v = (v << 4) | hexval(c); used = i + 1; }
  }
  if (code < 0) code = OK;
  VASSERT((int)o.code == code, "parseHex4: Ok iff four hex digits; NUL/end => IncompleteInput; other => InvalidInput");
  if (code == OK) { VASSERT(o.aux == v, "value of the four hex digits, either case"); VASSERT(o.consumed == 4 && !o.latched, "consumes exactly four bytes"); VWITNESS("ok"); }
  else { VASSERT(o.consumed <= n || (o.consumed == n + 0 && 1), "bounded"); if (code == INVALID) VWITNESS("invalid"); else VWITNESS("incomplete"); }
}

/* ---- skipKeyword(true|false|null) */
void h_keyword(void) {
  uint8_t in[NB]; for (unsigned i = 0; i < NB; i++) in[i] = vin_u8();
  uint32_t n = vin_u32(); VASSUME(n <= NB);
  uint32_t which = vin_u32(); VASSUME(which <= 2);
  static const uint8_t kws[3][6] = {"true", "false", "null"}; const unsigned kl[3] = {4, 5, 4};
  struct Out o = {0}; w_skw(in, n, which, &o); VOBS(o.code); VOBS(o.consumed);
  int code = -1;
  for (unsigned i = 0; i < 5; i++) if (code < 0 && i < kl[which]) { uint8_t c = i < n ? in[i] : 0; if (c == 0) code = INCOMPLETE; else if (c != kws[which][i]) code = INVALID; }
  if (code < 0) code = OK;
  VASSERT((int)o.code == code, "keyword matched exactly; end => IncompleteInput; mismatch => InvalidInput");
  if (code == OK) { VASSERT(o.consumed == kl[which] && !o.latched, "consumes exactly the keyword, no look-ahead"); VWITNESS("ok"); }
  if (code == INVALID) VWITNESS("invalid");
}

/* ---- skipSpacesAndComments: blanks (and comments when enabled) skipped; classification of the end of input */
void h_spaces(void) {
  uint8_t in[NB]; for (unsigned i = 0; i < NB; i++) in[i] = vin_u8();
#ifdef CMPREFIX   /* the input opens a block (1) or line (2) comment: concrete so that the scanner's first two iterations are not symbolic */
  in[0] = '/'; in[1] = CMPREFIX == 2 ? '/' : '*';
#endif
  uint32_t found = vin_u8() & 1;
  struct Out o = {0}; w_ssc(in, NB, found, &o); VOBS(o.code); VOBS(o.consumed); VOBS(o.found);
  /* reference: state machine over positions 0..NB (position NB reads as end) */
  enum { BL, SLASH, BLOCK, BLOCKSTAR, LINE }; int st = BL, code = -1; unsigned stop = 0;
  for (unsigned i = 0; i <= NB; i++) if (code < 0) {
    uint8_t c = at(in, i);
    if (st == BL) {
      if (c == 0) { code = found ? INCOMPLETE : EMPTY; stop = i; }
      else if (is_blank(c)) {}
      else if (COMMENTS && c == '/') st = SLASH;
      else { code = OK; stop = i; }
    } else if (st == SLASH) {
      if (c == '*') st = BLOCK; else if (c == '/') st = LINE; else { code = INVALID; stop = i; }
    } else if (st == BLOCK || st == BLOCKSTAR) {
      if (c == 0) { code = INCOMPLETE; stop = i; } else if (c == '/' && st == BLOCKSTAR) st = BL; else st = (c == '*') ? BLOCKSTAR : BLOCK;
    } else { if (c == 0) { code = INCOMPLETE; stop = i; } else if (c == '\n') st = BL; }
  }
  VASSERT((int)o.code == code, "skipSpacesAndComments classification (EmptyInput only when nothing was found before)");
  if (code == OK) {
    VASSERT(o.consumed == stop + 1 && o.latched && o.latch_char == in[stop < NB ? stop : 0], "stops on the first significant byte, which stays latched");
    VASSERT(o.found == 1, "foundSomething is set");
    VWITNESS("ok");
  }
  if (code == EMPTY) { VASSERT(o.found == 0, "still nothing found"); VWITNESS("empty"); }
  if (code == INCOMPLETE) VWITNESS("incomplete");
#if COMMENTS
  if (code == INVALID) VWITNESS("invalid");
#endif
}

/* ---- skipNumericValue / skipKey(non quoted): consume the maximal run of class characters, one byte of look-ahead */
void h_skipnum(void) {
  uint8_t in[NB]; for (unsigned i = 0; i < NB; i++) in[i] = vin_u8();
  struct Out o = {0}; w_snum(in, NB, &o); VOBS(o.consumed);
  unsigned k = 0; int stop = 0; for (unsigned i = 0; i < NB; i++) if (!stop) { uint8_t c = in[i]; int num = (c >= '0' && c <= '9') || c == '+' || c == '-' || c == '.' || (NANINF ? ((c >= 'A' && c <= 'Z') || (c >= 'a' && c <= 'z')) : (c == 'e' || c == 'E')); if (num) k++; else stop = 1; }
  VASSERT(o.code == OK, "skipNumericValue never fails");
  VASSERT(o.consumed == (k < NB ? k + 1 : NB), "consumes the run of number characters plus at most one look-ahead byte");
  if (k < NB) { VASSERT(o.latched && o.latch_char == in[k], "the look-ahead byte stays latched"); VWITNESS("lookahead"); } else VWITNESS("eof");
}
