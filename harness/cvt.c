/* C13 [K1]: convertNumber<TOut>(TIn) / canConvertNumber for every storage kind x target type, ALL input values.
 * Oracle: exact range test (integers through __int128; floats against power-of-two bounds, which is exact),
 * in range => C truncation toward zero, else 0; NaN => 0. Poison semantics of fptosi/fptoui in the translation
 * make any reachable out-of-range float->int conversion return an arbitrary value, so "never undefined" is
 * decided by the equality below. */
#include "vh.h"
#include "num.h"
typedef __int128 i128;
#define LO_i8 (-128) 
#define HI_i8 127
#define LO_u8 0
#define HI_u8 255
#define LO_i16 (-32768)
#define HI_i16 32767
#define LO_u16 0
#define HI_u16 65535
#define LO_i32 (-2147483647-1)
#define HI_i32 2147483647
#define LO_u32 0
#define HI_u32 4294967295LL
#define LO_i64 (-(i128)9223372036854775807LL-1)
#define HI_i64 ((i128)9223372036854775807LL)
#define LO_u64 0
#define HI_u64 ((i128)18446744073709551615ULL)
#define T_i8 int8_t
#define T_u8 uint8_t
#define T_i16 int16_t
#define T_u16 uint16_t
#define T_i32 int32_t
#define T_u32 uint32_t
#define T_i64 int64_t
#define T_u64 uint64_t
#define U_i8 uint8_t
#define U_u8 uint8_t
#define U_i16 uint16_t
#define U_u16 uint16_t
#define U_i32 uint32_t
#define U_u32 uint32_t
#define U_i64 uint64_t
#define U_u64 uint64_t

/* integer -> integer */
#define H_II(in, out) void h_cvt_##in##_##out(void) { \
  T_##in v = (T_##in)vin_u64(); \
  i128 x = (i128)v; int fits = x >= (i128)LO_##out && x <= (i128)HI_##out; \
  U_##out r = (U_##out)w_cvt_##in##_##out((U_##in)v); uint8_t can = w_can_##in##_##out((U_##in)v) & 1; \
  VOBS(r); VOBS(can); \
  VASSERT(can == fits, "canConvertNumber == exact range test"); \
  VASSERT(r == (fits ? (U_##out)(T_##out)v : (U_##out)0), "convertNumber: exact when it fits, 0 otherwise"); \
  if (fits) VWITNESS("fits"); else VWITNESS("nofit"); }
/* integer -> float: C cast (nearest) */
#define H_IF(in, out, tf, bits) void h_cvt_##in##_##out(void) { \
  T_##in v = (T_##in)vin_u64(); \
  tf r = w_cvt_##in##_##out((U_##in)v); tf e = (tf)v; \
  VOBS(bits(r)); VASSERT(bits(r) == bits(e), "integer -> floating: nearest representable value (C conversion)"); VWITNESS("any"); }
/* float -> integer: range test against exact power-of-two bounds */
/* HI: `<= hi` with hi exactly representable as double (<=32-bit targets); for 64-bit targets hi = 2^k-1 is not a
 * double and v <= 2^k-1 <=> v < 2^k because every double/float >= 2^53 is an integer. */
#define H_FI(in, tf, vinf, out, lo_d, HI) void h_cvt_##in##_##out(void) { \
  tf v = vinf(); \
  int fits = (v == v) && (double)v >= (lo_d) && ((double)v HI); \
  U_##out r = (U_##out)w_cvt_##in##_##out(v); uint8_t can = w_can_##in##_##out(v) & 1; \
  VOBS(r); VOBS(can); \
  VASSERT(can == fits, "canConvertNumber(float) == exact range test"); \
  VASSERT(r == (fits ? (U_##out)(T_##out)v : (U_##out)0), "convertNumber(float): truncation when in range, 0 otherwise (NaN => 0)"); \
  if (fits) VWITNESS("fits"); else VWITNESS("nofit"); }
#define H_FF(in, tfi, vinf, out, tfo, bits) void h_cvt_##in##_##out(void) { \
  tfi v = vinf(); tfo r = w_cvt_##in##_##out(v); tfo e = (tfo)v; \
  VOBS(bits(r)); VASSERT((v != v) ? (r != r) : bits(r) == bits(e), "floating -> floating: C conversion (NaN stays NaN)"); VWITNESS("any"); }

#define ALL_II(in) H_II(in, i8) H_II(in, u8) H_II(in, i16) H_II(in, u16) H_II(in, i32) H_II(in, u32) H_II(in, i64) H_II(in, u64) \
  H_IF(in, f32, float, vbits32) H_IF(in, f64, double, vbits64)
ALL_II(i32) ALL_II(u32) ALL_II(i64) ALL_II(u64)
#define ALL_FI(in, tf, vinf) \
  H_FI(in, tf, vinf, i8, -128.0, <= 127.0) H_FI(in, tf, vinf, u8, 0.0, <= 255.0) H_FI(in, tf, vinf, i16, -32768.0, <= 32767.0) H_FI(in, tf, vinf, u16, 0.0, <= 65535.0) \
  H_FI(in, tf, vinf, i32, -2147483648.0, <= 2147483647.0) H_FI(in, tf, vinf, u32, 0.0, <= 4294967295.0) \
  H_FI(in, tf, vinf, i64, -9223372036854775808.0, < 9223372036854775808.0) H_FI(in, tf, vinf, u64, 0.0, < 18446744073709551616.0)
ALL_FI(f32, float, vin_f32) ALL_FI(f64, double, vin_f64)
H_FF(f32, float, vin_f32, f32, float, vbits32) H_FF(f32, float, vin_f32, f64, double, vbits64)
H_FF(f64, double, vin_f64, f32, float, vbits32) H_FF(f64, double, vin_f64, f64, double, vbits64)

/* ---- Number::convertTo<T>() on a symbolic (kind, payload): the route taken by numeric STRINGS (parseNumber<T>) */
#define H_NUM(out, LO, HI_EXPR) void h_numcvt_##out(void) { \
  uint32_t kind = vin_u8(); uint64_t bits = vin_u64(); VASSUME(kind >= 1 && kind <= 4); \
  U_##out r = (U_##out)w_numcvt_##out(kind, bits); VOBS(r); \
  if (kind == 2) { i128 x = (i128)(int64_t)bits; int fits = x >= (i128)LO_##out && x <= (i128)HI_##out; VASSERT(r == (fits ? (U_##out)(T_##out)(int64_t)bits : (U_##out)0), "signed integer literal: exact when it fits, 0 otherwise"); VWITNESS("signed"); } \
  else if (kind == 3) { i128 x = (i128)bits; int fits = x <= (i128)HI_##out; VASSERT(r == (fits ? (U_##out)(T_##out)bits : (U_##out)0), "unsigned integer literal (up to 2^64-1): exact when it fits, 0 otherwise"); VWITNESS("unsigned"); } \
  else if (kind == 4) { double v; memcpy(&v, &bits, 8); int fits = (v == v) && v >= (LO) && (v HI_EXPR); VASSERT(r == (fits ? (U_##out)(T_##out)v : (U_##out)0), "double literal: truncation when in range, 0 otherwise"); VWITNESS("double"); } \
  else { float f = vin_unbits32((uint32_t)bits); double v = (double)f; int fits = (v == v) && v >= (LO) && (v HI_EXPR); VASSERT(r == (fits ? (U_##out)(T_##out)f : (U_##out)0), "float literal: truncation when in range, 0 otherwise"); VWITNESS("float"); } }
H_NUM(i8, -128.0, <= 127.0) H_NUM(u8, 0.0, <= 255.0) H_NUM(i16, -32768.0, <= 32767.0) H_NUM(u16, 0.0, <= 65535.0)
H_NUM(i32, -2147483648.0, <= 2147483647.0) H_NUM(u32, 0.0, <= 4294967295.0) H_NUM(i64, -9223372036854775808.0, < 9223372036854775808.0) H_NUM(u64, 0.0, < 18446744073709551616.0)
void h_numcvt_f64(void) {
  uint32_t kind = vin_u8(); uint64_t bits = vin_u64(); VASSUME(kind >= 1 && kind <= 4);
  double r = w_numcvt_f64(kind, bits); double e;
  if (kind == 2) e = (double)(int64_t)bits; else if (kind == 3) e = (double)bits; else if (kind == 4) memcpy(&e, &bits, 8); else e = (double)vin_unbits32((uint32_t)bits);
  VASSERT((e != e) ? (r != r) : vbits64(r) == vbits64(e), "as<double>() of a numeric string: the value of the literal's kind converted to double"); VWITNESS("any");
}
