/* C14/C13 [K3]: the same numeric-looking string given by address (const char*, linked) and by copy (char*), or through
 * the sized JsonString adapter: is<T>()/as<T>() observations must be identical, and no byte outside the 4-byte source
 * buffer may be read. Text skeleton: D MID D NUL with both digits symbolic (MID = '.' or 'e'). */
#include "vh.h"
#include "doc.h"
/* struct SObs: f0 ok, f1 is_str, f2 is_i32, f3 is_f64, f4 as<i32>, f5 as<u64>, f6 as<float>, f7 as<double> */
/* deterministic stand-ins for the power-of-ten scaling: both twins see the same function of (mantissa, exponent); the
   double-precision one returns a value that no float can hold, so that a twin silently routed through single precision
   is observable */
float CUT_MF_F(float m, uint32_t e) { return m + (float)(int32_t)e; }
double CUT_MF_D(double m, uint32_t e) { return m + (double)(int32_t)e + 1e-9; }
#ifndef MID
#define MID '.'
#endif
#ifndef TWIN   /* 0: const char* vs char*   1: const char* vs JsonString(copied, sized)   2: const char* vs JsonString(linked, sized) */
#define TWIN 0
#endif
static int same_obs(struct S_SObs* a, struct S_SObs* b) {
  return a->f1 == b->f1 && a->f2 == b->f2 && a->f3 == b->f3 && a->f4 == b->f4 && a->f5 == b->f5 && vbits32(a->f6) == vbits32(b->f6) && vbits64(a->f7) == vbits64(b->f7);
}
void h_str_twins(void) {
  uint8_t d1 = vin_u8(), d2 = vin_u8(); VASSUME(d1 >= '0' && d1 <= '9' && d2 >= '0' && d2 <= '9');
#ifdef EXP2   /* D e D D : exponents 00..99, the larger ones take the double-precision path */
  uint8_t d3 = vin_u8(); VASSUME(d3 >= '0' && d3 <= '9');
  uint8_t lit[5] = {d1, 'e', d2, d3, 0}; uint8_t buf[5] = {d1, 'e', d2, d3, 0};
#define SLEN 4
#else
  uint8_t lit[4] = {d1, MID, d2, 0}; uint8_t buf[4] = {d1, MID, d2, 0};
#define SLEN 3
#endif
  struct S_SObs a, b; memset(&a, 0, sizeof a); memset(&b, 0, sizeof b);
  w_strs_linked(lit, &a);
#if TWIN == 0
  w_strs_copied(buf, &b);
#elif TWIN == 1
  w_strs_sized(buf, SLEN, 0, &b);
#else
  w_strs_sized(buf, SLEN, 1, &b);
#endif
  VOBS(a.f4); VOBS(b.f4); VOBS(vbits64(a.f7)); VOBS(vbits64(b.f7));
  VASSERT((a.f0 & 1) && (b.f0 & 1), "set succeeds for every source kind");
  VASSERT(same_obs(&a, &b), "linked and copied storage give the same is<T>()/as<T>() (as<int32>, as<uint64>, as<float>, as<double>)");
  VASSERT((a.f1 & 1) && !(a.f2 & 1) && !(a.f3 & 1), "a string is a string, not a number, whatever it looks like");
  VWITNESS("any");
}
