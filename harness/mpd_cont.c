/* C15/C09/C03/C05 [K2]: one activation of MsgPackDeserializer::readArray / readObject with the children (parseVariant),
 * readKey and the slot allocation (addElement/addMember) cut. The announced count n and the nesting limit L are symbolic. */
#include "vh.h"
#include UNIT_H
enum { OK = 0, EMPTY = 1, INCOMPLETE = 2, INVALID = 3, NOMEM = 4, TOODEEP = 5 };
#define MAXC 3
static unsigned g_calls, g_keys, g_adds, g_add_failed; static uint8_t g_limit_seen[MAXC + 1]; static unsigned g_code[MAXC + 1]; static unsigned g_key_code[MAXC + 1];
static struct S_AJ__detail__VariantData g_slots[MAXC + 1]; static struct S_AJ__detail__VariantData* g_child_slot[MAXC + 1];
static unsigned g_order_bad, g_events;   /* children / keys / adds must alternate in order */
uint32_t CUT_MPV(struct S_AJ__detail__MsgPackDeserializer* d, struct S_AJ__detail__VariantData* v, uint8_t limit) {
  unsigned c = g_calls < MAXC ? g_calls : MAXC; g_calls++;
  g_limit_seen[c] = limit; g_child_slot[c] = v;
  unsigned rem = w_md_remaining(d), k = vin_u8(), code = vin_u8();
  VASSUME(k <= rem && code <= 5 && code != EMPTY); w_md_consume(d, k);
  g_code[c] = code; return code;
}
struct S_AJ__detail__VariantData* CUT_ADD_ELEMENT(struct S_AJ__detail__ArrayData* a, struct S_AJ__detail__ResourceManager* rm) {
  unsigned c = g_adds < MAXC ? g_adds : MAXC; g_adds++; if (g_adds != g_calls + 1) g_order_bad = 1;
  if (vin_u8() & 1) { g_add_failed = 1; return 0; }
  return &g_slots[c];
}
#ifdef CUT_ADD_MEMBER
struct S_AJ__detail__VariantData* CUT_ADD_MEMBER(struct S_AJ__detail__ObjectData* o, struct S_AJ__detail__StringNode* key, struct S_AJ__detail__ResourceManager* rm) {
  unsigned c = g_adds < MAXC ? g_adds : MAXC; g_adds++; if (g_adds != g_calls + 1 || g_keys != g_adds) g_order_bad = 1;
  VASSERT(key != 0, "a member is added with its saved key");
  if (vin_u8() & 1) { g_add_failed = 1; return 0; }
  return &g_slots[c];
}
uint32_t CUT_RKEY(struct S_AJ__detail__MsgPackDeserializer* d) {
  unsigned c = g_keys < MAXC ? g_keys : MAXC; g_keys++; if (g_keys != g_calls + 1) g_order_bad = 1;
  unsigned code = vin_u8(); VASSUME(code <= 5 && code != EMPTY && code != TOODEEP);
  if (code == OK) { uint8_t k[1] = {'k'}; w_md_set_key(d, k, 1); }
  g_key_code[c] = code; return code;
}
#endif
#ifndef OBJECT
#define OBJECT 0
#endif
void h_md_container(void) {
  uint8_t in[6]; for (unsigned i = 0; i < 6; i++) in[i] = vin_u8();
  uint64_t n = vin_u8(); VASSUME(n <= MAXC); uint8_t L = vin_u8();
  struct S_MOut o; memset(&o, 0, sizeof o);
#if OBJECT
  w_md_read_object(in, 6, n, L, &o);
#else
  w_md_read_array(in, 6, n, L, &o);
#endif
  VOBS(o.f0); VOBS(g_calls);
  VASSERT(o.f0 <= 5, "documented code");
  if (L == 0) { VASSERT(o.f0 == TOODEEP && g_calls == 0 && g_adds == 0 && g_keys == 0 && o.f1 == 0, "limit 0: TooDeep before anything is read or allocated"); VWITNESS("toodeep"); return; }
  for (unsigned c = 0; c < MAXC; c++) if (c < g_calls) { VASSERT(g_limit_seen[c] == (uint8_t)(L - 1), "every child receives the nesting limit minus one"); VASSERT(g_child_slot[c] == &g_slots[c], "each child decodes into the slot appended for it, in order"); }
  VASSERT(!g_order_bad, "key, slot and value are handled in order for each entry");
  /* expected outcome from the recorded behaviours */
  int exp = OK; unsigned done = 0;
  for (unsigned c = 0; c < MAXC; c++) if (exp == OK && c < n) {
#if OBJECT
    if (g_key_code[c] != OK) { exp = (int)g_key_code[c]; break; }
#endif
    if (g_add_failed && g_adds == c + 1) { exp = NOMEM; break; }
    if (g_code[c] != OK) { exp = (int)g_code[c]; done = c + 1; break; }
    done = c + 1;
  }
  VASSERT((int)o.f0 == exp, "Ok after exactly n entries; the first failing key / allocation / child decides the code (NoMemory for a failed slot)");
  if (exp == OK) { VASSERT(g_calls == n && g_adds == n, "the announced count is honoured: n children, n slots"); if (n == MAXC) VWITNESS("full"); else VWITNESS("ok"); }
  if (o.f0 == TOODEEP) VASSERT(g_calls >= 1 && g_code[g_calls - 1 < MAXC ? g_calls - 1 : MAXC] == TOODEEP, "TooDeep otherwise only propagated from a child");
  if (exp == NOMEM) VWITNESS("nomem");
}

/* ================= readObject<Filter> / readArray<Filter>: null-destination discipline. The filter is one of
 * true, {"k":true}, {"x":true}, {}, {"*":true}, [true], [] (FSHAPE 0..6); every key read by the (cut) readKey is "k". */
#ifdef CUT_MPVF
static struct S_AJ__detail__VariantData* g_fchild[MAXC + 1];
uint32_t CUT_MPVF(struct S_AJ__detail__MsgPackDeserializer* d, struct S_AJ__detail__VariantData* v, struct S_AJ__detail__VariantData* fdata, struct S_AJ__detail__ResourceManager* frm, uint8_t limit) {
  unsigned c = g_calls < MAXC ? g_calls : MAXC; g_calls++;
  g_limit_seen[c] = limit; g_fchild[c] = v;
  unsigned rem = w_md_remaining(d), k = vin_u8(), code = vin_u8();
  VASSUME(k <= rem && code <= 5 && code != EMPTY); w_md_consume(d, k);
  g_code[c] = code; return code;
}
#ifndef FSHAPE
#define FSHAPE 1
#endif
void h_md_container_filter(void) {
  uint8_t in[6]; for (unsigned i = 0; i < 6; i++) in[i] = vin_u8();
  uint64_t n = vin_u8(); VASSUME(n <= MAXC); uint8_t L = vin_u8();
  struct S_MOut o; memset(&o, 0, sizeof o);
#if OBJECT
  w_md_read_object_f(in, 6, n, L, FSHAPE, &o);
  const int admit = FSHAPE == 0 || (FSHAPE >= 1 && FSHAPE <= 4);                 /* filter true or an object filter */
  const int keep = FSHAPE == 0 || FSHAPE == 1 || FSHAPE == 4;                      /* member "k" kept: true, {"k":true}, {"*":true} */
#else
  w_md_read_array_f(in, 6, n, L, FSHAPE, &o);
  const int admit = FSHAPE == 0 || FSHAPE == 5 || FSHAPE == 6;                     /* filter true or an array filter */
  const int keep = FSHAPE == 0 || FSHAPE == 5;                                     /* element filter true */
#endif
  VASSERT(o.f0 <= 5, "documented code");
  VASSERT((o.f2 != 0) == (admit && L != 0), "the container is created only when the filter admits its kind (and the depth allows it)");
  if (L == 0) { VASSERT(o.f0 == TOODEEP && g_calls == 0 && g_adds == 0, "limit 0: TooDeep first, also under a filter that discards the value"); VWITNESS("toodeep"); return; }
  for (unsigned c = 0; c < MAXC; c++) if (c < g_calls) {
    VASSERT(g_limit_seen[c] == (uint8_t)(L - 1), "every child receives the nesting limit minus one, kept or discarded");
    VASSERT((g_fchild[c] != 0) == keep, "a kept entry is decoded into the slot appended for it; a discarded entry gets a null destination");
  }
  VASSERT(g_adds == (keep ? g_calls + (g_add_failed ? 1u : 0u) : 0u) || (keep && g_add_failed), "slots are appended only for kept entries: filtering never requests more memory than the unfiltered run");
  if (!g_add_failed && o.f0 == OK) { VASSERT(g_calls == n, "the announced count is honoured whatever the filter"); if (n) VWITNESS("entries"); }
  if (g_add_failed) VASSERT(o.f0 == NOMEM, "a failed slot allocation is NoMemory");
}
#endif
