/* C18 [K3]: the operator set (== != < <= > >=, both operand orders) on fixed-shape operands with symbolic payloads */
#include "vh.h"
#ifndef UNIT_H
#define UNIT_H "doc.h"
#endif
#include UNIT_H
#ifdef CUT_COLL_CLEAR
void CUT_COLL_CLEAR(struct S_AJ__detail__CollectionData* c, struct S_AJ__detail__ResourceManager* rm) { VASSERT(0, "CollectionData::clear is not reached: only scalars are overwritten in these scenarios"); }
#endif
/* S_Ops: f0 eq f1 ne f2 lt f3 le f4 gt f5 ge  (a op b), f6..f11 the same with operands swapped (b op a) */
static void laws(struct S_Ops* o, int comparable) {
  unsigned eq = o->f0 & 1, ne = o->f1 & 1, lt = o->f2 & 1, le = o->f3 & 1, gt = o->f4 & 1, ge = o->f5 & 1;
  unsigned req = o->f6 & 1, rne = o->f7 & 1, rlt = o->f8 & 1, rle = o->f9 & 1, rgt = o->f10 & 1, rge = o->f11 & 1;
  VASSERT(eq == req, "a==b iff b==a"); VASSERT(ne == !eq && rne == !req, "a!=b iff not a==b");
  VASSERT(lt == rgt && gt == rlt, "a<b iff b>a"); VASSERT(le == rge && ge == rle, "a<=b iff b>=a");
  VASSERT(lt + eq + gt <= 1, "at most one of a<b, a==b, a>b");
  if (comparable) { VASSERT(le == (lt | eq) && ge == (gt | eq), "a<=b iff a<b or a==b"); VASSERT(lt + eq + gt == 1, "comparable values: exactly one of <, ==, >"); }
}
void h_ops_str_ptr(void) {   /* variant holding a 2-byte string vs the C string "ab" */
  uint8_t s[2] = {vin_u8(), vin_u8()}; struct S_Ops o; memset(&o, 0, sizeof o);
  w_ops_str_ptr(s, 2, (const uint8_t*)"ab", &o);
  laws(&o, 1);
  VASSERT((o.f0 & 1) == (s[0] == 'a' && s[1] == 'b'), "a string equals a C string iff the bytes are identical");
  if (o.f0 & 1) VWITNESS("eq"); else VWITNESS("ne");
}
void h_ops_str_var(void) {   /* two variants (two documents) holding 2-byte strings */
  uint8_t s[2] = {vin_u8(), vin_u8()}, t[2] = {vin_u8(), vin_u8()}; struct S_Ops o; memset(&o, 0, sizeof o);
  w_ops_str_var(s, 2, t, 2, &o);
  laws(&o, 1);
  VASSERT((o.f0 & 1) == (s[0] == t[0] && s[1] == t[1]), "strings are equal iff their bytes are identical (NUL and high-bit bytes included)");
  if (o.f0 & 1) VWITNESS("eq"); else VWITNESS("ne");
}
void h_ops_int_scalar(void) {
  int64_t v = (int64_t)vin_u64(); int32_t k = (int32_t)vin_u32(); struct S_Ops o; memset(&o, 0, sizeof o);
  w_ops_int_scalar((uint64_t)v, (uint32_t)k, &o);
  laws(&o, 1);
  VASSERT((o.f0 & 1) == (v == (int64_t)k) && (o.f2 & 1) == (v < (int64_t)k), "integers compare by value");
  if (v < k) VWITNESS("lt"); else VWITNESS("ge");
}
#ifndef YN
#define YN 0
#define WN 0
#define KC 0
#define SW 0
#endif
void h_obj_eq(void) {
  int32_t x = (int32_t)vin_u8(), y = (int32_t)vin_u8(), z = (int32_t)vin_u8(), w = (int32_t)vin_u8();
  const unsigned yn = YN, wn = WN, kc = KC, sw = SW;   /* the shape is fixed per obligation */
  unsigned r = w_obj_eq((uint32_t)x, (uint32_t)y, yn, (uint32_t)z, (uint32_t)w, wn, kc, sw); VOBS(r);
  int expect = x == z && !kc && (yn ? wn : (!wn && y == w));
  VASSERT((r & 1) == (unsigned)expect, "objects are equal iff they have the same keys with equal values, whatever the member order (a missing key is not a null member)");
  VASSERT(((r >> 1) & 1) == (unsigned)expect, "object equality is symmetric");
  VASSERT(((r >> 2) & 1) == (unsigned)!expect, "!= is the negation of ==");
  if (expect) VWITNESS("equal"); else if (kc && yn) VWITNESS("missing-vs-null");
}
void h_arr_eq(void) {
  int32_t x = (int32_t)vin_u8(), y = (int32_t)vin_u8(), z = (int32_t)vin_u8(), w = (int32_t)vin_u8(); unsigned n2 = 1 + (vin_u8() & 1);
  unsigned r = w_arr_eq((uint32_t)x, (uint32_t)y, (uint32_t)z, (uint32_t)w, n2); VOBS(r);
  int expect = n2 == 2 && x == z && y == w;
  VASSERT((r & 1) == (unsigned)expect && ((r >> 1) & 1) == (unsigned)expect, "arrays compare element-wise in order, lengths included, symmetrically");
  if (expect) VWITNESS("equal"); else VWITNESS("different");
}
