/* C11 [K3]: Filter::allow/allowArray/allowObject/allowValue/operator[] on a family of 15 concrete filter documents
 * (one obligation each), the looked-up key being a symbolic zero-terminated string of <= 1 byte. The projection rule is
 * written here: true keeps everything below it; an object filter selects the listed member, "*" standing for any key that
 * is absent or null; an array filter applies its first element to every element; false/null/absent drops the value;
 * a kept value whose kind the filter does not admit stays null (allowArray/allowObject/allowValue). */
#include "vh.h"
#include "filt.h"
#ifdef CUT_COLL_CLEAR
void CUT_COLL_CLEAR(struct S_AJ__detail__CollectionData* c, struct S_AJ__detail__ResourceManager* rm) { VASSERT(0, "CollectionData::clear is not reached while a filter document is built from scalars"); }
#endif
/* model of a filter node: 0 null/absent, 1 false, 2 true, 3 number, 4 {} , 5 [], >=10 see below */
enum { N_NULL, N_FALSE, N_TRUE, N_NUM, N_EMPTYOBJ, N_EMPTYARR, N_OBJ_B_TRUE /* {"b":true} */, N_OBJ_A_TRUE /* {"a":true} */, N_ARR_TRUE /* [true] */, N_ROOT };
static unsigned node_bits(int n) {   /* allow | allowArray<<1 | allowObject<<2 | allowValue<<3 */
  switch (n) { case N_TRUE: return 15; case N_NUM: return 1; case N_EMPTYOBJ: case N_OBJ_B_TRUE: case N_OBJ_A_TRUE: return 1 | 4; case N_EMPTYARR: case N_ARR_TRUE: return 1 | 2; default: return 0; }
}
#ifndef SHAPE
#define SHAPE 6
#endif
void h_filter(void) {
  uint8_t key[2]; key[0] = vin_u8(); key[1] = 0;
  struct S_FOut o; memset(&o, 0, sizeof o); w_filter(SHAPE, key, &o);
  VOBS(o.f0); VOBS(o.f1); VOBS(o.f2); VOBS(o.f3); VOBS(o.f4); VOBS(o.f5);
  int is_a = key[0] == 'a', is_b = key[0] == 'b', is_star = key[0] == '*';
  int self, k, i, kk, ik, ii;   /* expected node models */
  switch (SHAPE) {
    case 0: self = k = i = kk = ik = ii = N_TRUE; break;
    case 1: self = N_FALSE; k = i = kk = ik = ii = N_NULL; break;
    case 2: self = k = i = kk = ik = ii = N_NULL; break;
    case 3: self = N_NUM; k = i = kk = ik = ii = N_NULL; break;
    case 4: self = N_EMPTYOBJ; k = i = kk = ik = ii = N_NULL; break;
    case 5: self = N_EMPTYARR; k = i = kk = ik = ii = N_NULL; break;
    case 6: self = N_OBJ_A_TRUE; k = is_a ? N_TRUE : N_NULL; kk = k; i = ik = ii = N_NULL; break;
    case 7: self = N_OBJ_A_TRUE; k = is_a ? N_FALSE : N_NULL; kk = N_NULL; i = ik = ii = N_NULL; break;
    case 8: self = N_OBJ_A_TRUE; k = N_TRUE; kk = N_TRUE; i = ik = ii = N_NULL; break;
    case 9: self = N_OBJ_A_TRUE; k = is_a ? N_FALSE : N_TRUE; kk = is_a ? N_NULL : N_TRUE; i = ik = ii = N_NULL; break;
    case 10: self = N_OBJ_A_TRUE; k = is_a ? N_OBJ_B_TRUE : N_NULL; kk = is_a ? N_TRUE : N_NULL; i = ik = ii = N_NULL; break;
    case 11: self = N_ARR_TRUE; k = N_NULL; kk = N_NULL; i = N_TRUE; ik = N_TRUE; ii = N_TRUE; break;
    case 12: self = N_ARR_TRUE; k = N_NULL; kk = N_NULL; i = N_OBJ_A_TRUE; ik = is_a ? N_TRUE : N_NULL; ii = N_NULL; break;
    case 13: self = N_ARR_TRUE; k = N_NULL; kk = N_NULL; i = N_ARR_TRUE; ik = N_NULL; ii = N_TRUE; break;
    default: self = N_OBJ_A_TRUE; k = N_TRUE; kk = N_TRUE; i = ik = ii = N_NULL; break;   /* {"a":null,"*":true}: a null entry falls back to "*" */
  }
  (void)is_b; (void)is_star;
  VASSERT(o.f0 == node_bits(self), "root filter: allow / allowArray / allowObject / allowValue");
  VASSERT(o.f1 == node_bits(k), "filter[key]: the listed member, else the wildcard, else nothing");
  VASSERT(o.f2 == node_bits(i), "filter[0]: an array filter applies its first element to every element; other filters give nothing (true stays true)");
  VASSERT(o.f3 == node_bits(kk), "filter[key][\"b\"]");
  VASSERT(o.f4 == node_bits(ik), "filter[0][key]");
  VASSERT(o.f5 == node_bits(ii), "filter[0][0]");
  if (is_a) VWITNESS("a"); else VWITNESS("other");
}

/* object-shaped filters {"*":true} (STAR=1) / {"a":true} (STAR=0), built with the low-level API */
#ifndef STAR
#define STAR 1
#endif
void h_filter_obj(void) {
  uint8_t key[2]; key[0] = vin_u8(); key[1] = 0;
  struct S_FOut o; memset(&o, 0, sizeof o); w_filter_obj(STAR, key, &o);
  VOBS(o.f0); VOBS(o.f1); VOBS(o.f2); VOBS(o.f5);
  VASSERT(o.f0 == (1 | 4), "an object filter allows objects only");
  if (STAR) VASSERT(o.f1 == 15, "\"*\" stands for any key");
  else VASSERT(o.f1 == (key[0] == 'a' ? 15u : 0u), "only the listed member is kept");
  VASSERT(o.f2 == 0, "an object filter applied to an ARRAY index selects nothing: the wildcard stands for member names, and the value being an array is not admitted by this filter (allowArray() is false)");
  VASSERT(o.f5 == 0, "nor below it");
  if (key[0] == 'a') VWITNESS("a"); else VWITNESS("other");
}

/* ---- C01/C14: key lookup in an object with one member. MLEN / LLEN (0..2) are part of the shape, the bytes are symbolic */
#ifndef MLEN
#define MLEN 1
#endif
#ifndef LLEN
#define LLEN 1
#endif
void h_obj_find(void) {
  uint8_t mk[3] = {0, 0, 0}, lk[3] = {0, 0, 0};
  for (unsigned i = 0; i < MLEN; i++) mk[i] = vin_u8(); for (unsigned i = 0; i < LLEN; i++) lk[i] = vin_u8();
  unsigned r = w_obj_find(mk, MLEN, lk, LLEN, lk);      /* lk is NUL-terminated inside its 3-byte buffer */
  VASSUME(r != 99);
  int same = MLEN == LLEN; for (unsigned i = 0; i < 2; i++) if (i < MLEN && i < LLEN && mk[i] != lk[i]) same = 0;
  VASSERT((r & 1) == (unsigned)same, "a sized lookup finds the member iff the keys have the same length and bytes (empty key and NUL included)");
  VASSERT(((r >> 2) & 1) == (unsigned)same, "obj[key] through the public API agrees");
  unsigned zl = 0; { int e = 0; for (unsigned i = 0; i < 3; i++) if (!e) { if (lk[i] == 0) e = 1; else zl++; } }
  int zsame = zl == MLEN; for (unsigned i = 0; i < 2; i++) if (i < MLEN && i < zl && mk[i] != lk[i]) zsame = 0;
  VASSERT(((r >> 1) & 1) == (unsigned)zsame, "a zero-terminated lookup finds the member iff the C string equals the whole key");
  if (same) VWITNESS("found"); else VWITNESS("absent");
}

/* ---- C18: object equality, both objects built with the low-level API; the shape bits are fixed per obligation */
#ifndef YN
#define YN 0
#define WN 0
#define KC 0
#define SW 0
#endif
void h_objeq(void) {
  int32_t x = (int32_t)vin_u8(), y = (int32_t)vin_u8(), z = (int32_t)vin_u8(), w = (int32_t)vin_u8();
  unsigned r = w_objeq_low((uint32_t)x, (uint32_t)y, YN, (uint32_t)z, (uint32_t)w, WN, KC, SW); VASSUME(r != 99); VOBS(r);
  int expect = x == z && !KC && (YN ? WN : (!WN && y == w));
  VASSERT((r & 1) == (unsigned)expect, "objects are equal iff they have the same keys with equal values, whatever the member order (a missing key is not a null member)");
  VASSERT(((r >> 1) & 1) == (unsigned)expect, "object equality is symmetric");
  VASSERT(((r >> 2) & 1) == (unsigned)!expect, "!= is the negation of ==");
  if (expect) VWITNESS("equal"); else VWITNESS("different");
}

/* ---- C04/C06: object history add k1, add k2, remove (first | second), add k3 with the keys a, b, c
 * and symbolic values: the survivor keeps its key and value, order = survivor then new member, the freed pair of slots is
 * reused (no new pool), lookups agree with the model */
#ifndef RM
#define RM 1
#endif
void h_obj_hist(void) {
  uint8_t k1[2] = {'a', 0}, k2[2] = {'b', 0}, k3[2] = {'c', 0};   /* which member a key designates is part of the shape: keys concrete, values symbolic */
  int32_t v1 = (int32_t)vin_u32(), v2 = (int32_t)vin_u32(), v3 = (int32_t)vin_u32();
  struct S_OHist h; memset(&h, 0, sizeof h); w_obj_hist(k1, k2, k3, (uint32_t)v1, (uint32_t)v2, (uint32_t)v3, RM, &h);
  /* S_OHist: f0 size f1 n f2 calls_mid f3 calls_end f4 found1 f5 found2 f6 found3 f7 keys f8 vals */
  uint8_t sk = RM == 1 ? k2[0] : k1[0]; int32_t sv = RM == 1 ? v2 : v1;
  VASSERT(h.f0 == 2 && h.f1 == 2, "two members remain");
  VASSERT(h.f7.e[0] == sk && (int32_t)h.f8.e[0] == sv, "the member that was not removed keeps its key and value and comes first");
  VASSERT(h.f7.e[1] == k3[0] && (int32_t)h.f8.e[1] == v3, "the new member is appended after it");
  VASSERT((h.f4 & 1) == (RM != 1) && (h.f5 & 1) == (RM != 2) && (h.f6 & 1), "lookups: removed key absent, the others present");
  VASSERT(h.f3 <= h.f2 + 1, "the two slots released by the removal are reused: at most the new key string is allocated");
  VWITNESS("any");
}
