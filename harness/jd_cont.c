/* C01/C03/C10/C15/C16 [K2]: one activation of parseArray / skipArray / parseObject / skipObject with the recursive
 * children cut. The stubs below are the children's CONTRACT: a child consumes some bytes (possibly leaving one look-ahead
 * byte latched, possibly exhausting the input), returns any of the six codes, and may write only the value slot it was
 * given. Every choice of the stub is nondeterministic and recorded; a reference recogniser written here is then run over
 * the same input and the recorded choices, and the real routine must agree with it on (code, bytes consumed, children
 * invoked, nesting limit handed down, elements appended in order). */
#include "jdh.h"
#include UNIT_H
#ifndef NB
#define NB 4
#endif
#define TOT (NB + 1)
#define MAXC 4
static uint8_t* g_in; static unsigned g_n;
static unsigned g_calls; static uint8_t g_limit_seen[MAXC + 1]; static unsigned g_pos_before[MAXC + 1], g_latched_before[MAXC + 1];
static unsigned g_k[MAXC + 1], g_mode[MAXC + 1], g_code[MAXC + 1]; static unsigned g_kind[MAXC + 1]; /* 0 parseVariant 1 skipVariant */
static unsigned g_key_calls;

static uint32_t child(struct S_AJ__detail__JsonDeserializer* d, uint8_t limit, unsigned kind) {
  unsigned c = g_calls < MAXC ? g_calls : MAXC; g_calls++;
  g_limit_seen[c] = limit; g_kind[c] = kind;
  g_pos_before[c] = w_jd_pos(d, g_in); g_latched_before[c] = w_jd_latched(d);
  unsigned rem = w_jd_remaining(d);
  unsigned k = vin_u8(), mode = vin_u8(), code = vin_u8();
  VASSUME(k <= rem && mode <= 2 && code <= 5);
  VASSUME(mode != 1 || k >= 1);
  VASSUME(code != OK || k + g_latched_before[c] >= 1);   /* a value has at least one byte */
  VASSUME(code != EMPTY);                                   /* foundSomething_ is already set: a child never reports EmptyInput */
  w_jd_child_effect(d, k, mode);
  g_k[c] = k; g_mode[c] = mode; g_code[c] = code;
  return code;
}
/* ArrayData::addElement is cut as well (it is decided on its own in the slot-pool obligations): the stub hands out
 * fresh slots from a harness array, or NULL (allocation failure) */
static struct S_AJ__detail__VariantData g_slots[MAXC + 1]; static unsigned g_adds, g_add_failed; static struct S_AJ__detail__VariantData* g_child_slot[MAXC + 1];
#ifdef CUT_ADD_ELEMENT
struct S_AJ__detail__VariantData* CUT_ADD_ELEMENT(struct S_AJ__detail__ArrayData* a, struct S_AJ__detail__ResourceManager* rm) {
  unsigned c = g_adds < MAXC ? g_adds : MAXC; g_adds++;
  if (vin_u8() & 1) { g_add_failed = 1; return 0; }
  return &g_slots[c];
}
#endif
uint32_t CUT_PV_ALL(struct S_AJ__detail__JsonDeserializer* d, struct S_AJ__detail__VariantData* v, uint8_t limit) {
  g_child_slot[g_calls < MAXC ? g_calls : MAXC] = v;
  return child(d, limit, 0);
}
uint32_t CUT_SV(struct S_AJ__detail__JsonDeserializer* d, uint8_t limit) { return child(d, limit, 1); }

/* reference: position bookkeeping. `pos` = number of bytes consumed from the reader; `la` = 1 when the byte at pos-1 is
 * a pending look-ahead (still to be examined). at end of input the look-ahead reads as NUL. */
struct RS { unsigned pos; unsigned la; int ended; };
static uint8_t peek(struct RS* s) {   /* current(): load if needed */
  if (!s->la) { if (s->pos < g_n) { s->pos++; s->la = 1; } else { s->ended = 1; s->la = 1; return 0; } }
  if (s->ended) return 0;
  return g_in[s->pos - 1];
}
static void drop(struct RS* s) { s->la = 0; }
static int skip_blanks(struct RS* s) {   /* returns OK or INCOMPLETE (input exhausted / NUL) */
  for (unsigned i = 0; i <= TOT; i++) { uint8_t c = peek(s); if (c == 0) return INCOMPLETE; if (!is_blank(c)) return OK; drop(s); }
  return OK;
}
static void after_child(struct RS* s, unsigned c) {
  /* the child started from our state; its effect: k more bytes, then mode */
  s->pos += g_k[c];
  if (g_mode[c] == 2) { s->pos = g_n; s->la = 1; s->ended = 1; }
  else if (g_mode[c] == 1) { s->la = 1; if (g_in[s->pos - 1] == 0) s->ended = 1; }
  else s->la = 0;
}
/* array-like: '[' v (',' v)* ']'   (skip=1: skipArray has no "empty array" test of its own) */
static int ref_array(uint8_t L, int skip, unsigned* ncalls, unsigned* consumed, unsigned* la_out) {
  struct RS s = {1, 1, 0}; *ncalls = 0;
  if (L == 0) { *consumed = 1; *la_out = 1; return TOODEEP; }
  drop(&s);
  int e;
  if (!skip) { e = skip_blanks(&s); if (e) { *consumed = s.pos; *la_out = s.la; return e; }
               if (peek(&s) == ']') { drop(&s); *consumed = s.pos; *la_out = 0; return OK; } }
  for (unsigned c = 0; c < MAXC; c++) {
    /* child c is invoked now with the state s */
    *ncalls = c + 1;
    VASSERT(g_pos_before[c] == s.pos && g_latched_before[c] == s.la, "child is started exactly where the container scanner stands");
    after_child(&s, c);
    if (g_code[c] != OK) { *consumed = s.pos; *la_out = s.la; return (int)g_code[c]; }
    e = skip_blanks(&s); if (e) { *consumed = s.pos; *la_out = s.la; return e; }
    uint8_t ch = peek(&s);
    if (ch == ']') { drop(&s); *consumed = s.pos; *la_out = 0; return OK; }
    if (ch != ',') { *consumed = s.pos; *la_out = s.la; return INVALID; }
    drop(&s);
  }
  *consumed = s.pos; *la_out = s.la; return -1; /* more than MAXC children: outside the bound */
}

static void common_checks(struct Out* o, uint8_t L, int r, unsigned ncalls, unsigned consumed, unsigned la) {
  VASSERT(o->code <= 5, "one of the six documented codes");
  if (r < 0) { VASSUME(0); }
  VASSERT((int)o->code == r, "code equals the reference recogniser run over the same input and child behaviours");
  VASSERT(g_calls == ncalls, "children invoked exactly when the grammar asks for a value");
  VASSERT(o->consumed == consumed, "bytes consumed equal the reference (no read beyond the token on Ok)");
  if (r == OK) VASSERT(o->latched == 0, "closing bracket consumed without look-ahead");
  for (unsigned c = 0; c < MAXC; c++) if (c < g_calls) VASSERT(g_limit_seen[c] == (uint8_t)(L - 1), "every child receives the nesting limit minus one");
  if (L == 0) { VASSERT(o->code == TOODEEP && g_calls == 0, "limit 0: TooDeep before anything is consumed or parsed"); VWITNESS("toodeep"); }
  if (o->code == TOODEEP && L != 0) VASSERT(g_calls >= 1 && g_code[g_calls - 1 < MAXC ? g_calls - 1 : MAXC] == TOODEEP, "TooDeep otherwise only propagated from a child");
  VASSERT(o->consumed <= g_n, "never reads beyond the input");
}

void h_parse_array(void) {
  uint8_t in[TOT]; in[0] = '['; for (unsigned i = 1; i < TOT; i++) in[i] = vin_u8();
  uint8_t L = vin_u8(); g_in = in; g_n = TOT;
  struct Out o = {0}; int32_t tags[4];
  w_parse_array(in, TOT, 0, L, &o, (uint32_t*)tags);
  VOBS(o.code); VOBS(o.consumed); VOBS(g_calls); VOBS(g_adds);
  if (g_add_failed) {   /* C05: a failed slot allocation is reported as NoMemory, and the child is not started */
    VASSERT(o.code == NOMEM, "allocation failure while appending => NoMemory");
    VASSERT(g_calls == g_adds - 1, "no child is parsed into a slot that could not be allocated");
    VWITNESS("nomem"); return;
  }
  unsigned nc, cons, la; int r = ref_array(L, 0, &nc, &cons, &la);
  common_checks(&o, L, r, nc, cons, la);
  VASSERT(g_adds == g_calls, "exactly one slot is appended per element");
  for (unsigned c = 0; c < MAXC; c++) if (c < g_calls) VASSERT(g_child_slot[c] == &g_slots[c], "each child parses into the slot appended for it, in document order");
  if (r == OK && nc == 2) VWITNESS("two-elements"); if (r == OK && nc == 0) VWITNESS("empty"); if (r == INVALID) VWITNESS("invalid"); if (r == INCOMPLETE) VWITNESS("incomplete");
}
void h_skip_array(void) {
  uint8_t in[TOT]; in[0] = '['; for (unsigned i = 1; i < TOT; i++) in[i] = vin_u8();
  uint8_t L = vin_u8(); g_in = in; g_n = TOT;
  struct Out o = {0};
  w_skip_array(in, TOT, L, &o);
  VOBS(o.code); VOBS(o.consumed); VOBS(g_calls);
  unsigned nc, cons, la; int r = ref_array(L, 1, &nc, &cons, &la);
  common_checks(&o, L, r, nc, cons, la);
  for (unsigned c = 0; c < MAXC; c++) if (c < g_calls) VASSERT(g_kind[c] == 1, "skipArray only skips");
  if (r == OK && nc == 2) VWITNESS("two-elements"); if (r == INVALID) VWITNESS("invalid"); if (r == INCOMPLETE) VWITNESS("incomplete");
}

/* ================= objects: '{' (key ':' value (',' key ':' value)*)? '}'  with blanks allowed around every token.
 * parseKey / skipKey are cut as well (they are decided on their own): the key stub consumes bytes like a child does. */
#if defined(CUT_SKEY) || defined(CUT_PKEY)
#ifdef CUT_SKEY
#define CUT_SKEY_REAL 1
#endif
static unsigned g_keyc, g_kk[MAXC + 1], g_kmode[MAXC + 1], g_kcode[MAXC + 1], g_kpos[MAXC + 1], g_kla[MAXC + 1];
static uint32_t keystub(struct S_AJ__detail__JsonDeserializer* d) {
  unsigned c = g_keyc < MAXC ? g_keyc : MAXC; g_keyc++;
  g_kpos[c] = w_jd_pos(d, g_in); g_kla[c] = w_jd_latched(d);
  unsigned rem = w_jd_remaining(d); unsigned k = vin_u8(), mode = vin_u8(), code = vin_u8();
  VASSUME(k <= rem && mode <= 2 && code <= 4 && code != EMPTY); VASSUME(mode != 1 || k >= 1);
  w_jd_child_effect(d, k, mode);
  g_kk[c] = k; g_kmode[c] = mode; g_kcode[c] = code;
  return code;
}
#ifdef CUT_SKEY_REAL
uint32_t CUT_SKEY(struct S_AJ__detail__JsonDeserializer* d) { return keystub(d); }
#endif
static void after_key(struct RS* s, unsigned c) {
  s->pos += g_kk[c];
  if (g_kmode[c] == 2) { s->pos = g_n; s->la = 1; s->ended = 1; } else if (g_kmode[c] == 1) { s->la = 1; if (g_in[s->pos - 1] == 0) s->ended = 1; } else s->la = 0;
}
static int ref_object(uint8_t L, unsigned* ncalls, unsigned* nkeys, unsigned* consumed) {
  struct RS s = {1, 1, 0}; *ncalls = 0; *nkeys = 0; int e;
  if (L == 0) { *consumed = 1; return TOODEEP; }
  drop(&s);
  e = skip_blanks(&s); if (e) { *consumed = s.pos; return e; }
  if (peek(&s) == '}') { drop(&s); *consumed = s.pos; return OK; }
  for (unsigned c = 0; c < MAXC; c++) {
    *nkeys = c + 1;
    VASSERT(g_kpos[c] == s.pos && g_kla[c] == s.la, "the key scanner is started exactly where the object scanner stands");
    after_key(&s, c);
    if (g_kcode[c] != OK) { *consumed = s.pos; return (int)g_kcode[c]; }
    e = skip_blanks(&s); if (e) { *consumed = s.pos; return e; }
    if (peek(&s) != ':') { *consumed = s.pos; return INVALID; }
    drop(&s);
    *ncalls = c + 1;
    VASSERT(g_pos_before[c] == s.pos && g_latched_before[c] == s.la, "the value is started right after the colon");
    after_child(&s, c);
    if (g_code[c] != OK) { *consumed = s.pos; return (int)g_code[c]; }
    e = skip_blanks(&s); if (e) { *consumed = s.pos; return e; }
    uint8_t ch = peek(&s);
    if (ch == '}') { drop(&s); *consumed = s.pos; return OK; }
    if (ch != ',') { *consumed = s.pos; return INVALID; }
    drop(&s);
    e = skip_blanks(&s); if (e) { *consumed = s.pos; return e; }
  }
  *consumed = s.pos; return -1;
}
#ifdef CUT_SKEY
void h_skip_object(void) {
  uint8_t in[TOT]; in[0] = '{'; for (unsigned i = 1; i < TOT; i++) in[i] = vin_u8();
  uint8_t L = vin_u8(); g_in = in; g_n = TOT;
  struct Out o = {0};
  w_skip_object(in, TOT, L, &o);
  VOBS(o.code); VOBS(o.consumed); VOBS(g_calls); VOBS(g_keyc);
  unsigned nc, nk, cons; int r = ref_object(L, &nc, &nk, &cons);
  if (r < 0) { VASSUME(0); }
  VASSERT(o.code <= 5 && (int)o.code == r, "code equals the reference object recogniser (a colon after every key, ',' or '}' after every value)");
  VASSERT(g_calls == nc && g_keyc == nk, "keys and values are scanned exactly when the grammar asks for them");
  VASSERT(o.consumed == cons && o.consumed <= g_n, "bytes consumed equal the reference; never beyond the input");
  if (r == OK) VASSERT(o.latched == 0, "closing brace consumed without look-ahead");
  for (unsigned c = 0; c < MAXC; c++) if (c < g_calls) { VASSERT(g_limit_seen[c] == (uint8_t)(L - 1), "every value receives the nesting limit minus one"); VASSERT(g_kind[c] == 1, "skipObject only skips"); }
  if (L == 0) { VASSERT(o.code == TOODEEP && g_calls == 0 && g_keyc == 0, "limit 0: TooDeep first"); VWITNESS("toodeep"); }
  if (o.code == TOODEEP && L != 0) VASSERT(g_calls >= 1 && g_code[g_calls - 1 < MAXC ? g_calls - 1 : MAXC] == TOODEEP, "TooDeep otherwise only propagated from a value");
  if (r == OK && nc == 1) VWITNESS("one-member"); if (r == OK && nc == 0) VWITNESS("empty"); if (r == INVALID) VWITNESS("invalid");
}
#endif
#endif

/* ================= parseObject: like skipObject, plus the member handling. Cut: parseKey, ObjectData::getMember (returns
 * "found" or not, nondeterministically), StringBuilder::save, ObjectData::addMember (may fail), VariantData::clear. */
#ifdef CUT_PKEY
static struct S_AJ__detail__VariantData g_member[MAXC + 1], g_existing[MAXC + 1]; static struct S_AJ__detail__StringNode g_node;
static unsigned g_gets, g_found[MAXC + 1], g_saves, g_madds, g_madd_failed, g_clears; static struct S_AJ__detail__VariantData* g_cleared[MAXC + 1]; static unsigned g_seq_bad;
#ifdef NULKEY   /* the parsed key contains a NUL (as produced by \u0000): k NUL x, 3 bytes */
#define KEYLEN 3
static const uint8_t KEYBYTES[3] = {'k', 0, 'x'};
#else
#define KEYLEN 1
static const uint8_t KEYBYTES[3] = {'k', 0, 0};
#endif
uint32_t CUT_PKEY(struct S_AJ__detail__JsonDeserializer* d) { uint32_t c = keystub(d); if (c == OK) w_jd_set_key(d, KEYBYTES, KEYLEN); return c; }
static struct S_AJ__detail__VariantData* getmember_common(void) {
  unsigned c = g_gets < MAXC ? g_gets : MAXC; g_gets++; if (g_gets != g_keyc || g_gets != g_calls + 1) g_seq_bad = 1;
  g_found[c] = vin_u8() & 1; return g_found[c] ? &g_existing[c] : 0;
}
#ifdef CUT_GETMEMBER      /* lookup through a zero-terminated view of the key */
struct S_AJ__detail__VariantData* CUT_GETMEMBER(struct S_AJ__detail__ObjectData* o, uint8_t* key, struct S_AJ__detail__ResourceManager* rm) {
  unsigned n = 0; int end = 0; for (unsigned i = 0; i < 4; i++) if (!end) { if (key[i] == 0) end = 1; else n++; }
  VASSERT(key != 0 && n == KEYLEN && key[0] == KEYBYTES[0], "the key looked up is the WHOLE key that was just parsed (a key containing NUL must not be cut at the NUL)");
  return getmember_common();
}
#endif
#ifdef CUT_GETMEMBER_SIZED   /* lookup through a sized view of the key */
struct S_AJ__detail__VariantData* CUT_GETMEMBER_SIZED(struct S_AJ__detail__ObjectData* o, struct S_AJ__detail__JsonStringAdapter* key, struct S_AJ__detail__ResourceManager* rm) {
  uint8_t* p = w_jsa_data(key); uint64_t n = w_jsa_size(key);
  VASSERT(p != 0 && n == KEYLEN && p[0] == KEYBYTES[0] && (KEYLEN < 3 || (p[1] == KEYBYTES[1] && p[2] == KEYBYTES[2])), "the key looked up is the WHOLE key that was just parsed, length included");
  return getmember_common();
}
#endif
struct S_AJ__detail__StringNode* CUT_SB_SAVE(struct S_AJ__detail__StringBuilder* sb) { g_saves++; return &g_node; }
struct S_AJ__detail__VariantData* CUT_ADD_MEMBER(struct S_AJ__detail__ObjectData* o, struct S_AJ__detail__StringNode* key, struct S_AJ__detail__ResourceManager* rm) {
  unsigned c = g_gets ? g_gets - 1 : 0; g_madds++; VASSERT(key == &g_node, "the member is added with the key that was just saved");
  if (vin_u8() & 1) { g_madd_failed = 1; return 0; } return &g_member[c < MAXC ? c : MAXC];
}
void CUT_VCLEAR(struct S_AJ__detail__VariantData* v, struct S_AJ__detail__ResourceManager* rm) { g_cleared[g_clears < MAXC ? g_clears : MAXC] = v; g_clears++; }
void h_parse_object(void) {
  uint8_t in[TOT]; in[0] = '{'; for (unsigned i = 1; i < TOT; i++) in[i] = vin_u8();
  uint8_t L = vin_u8(); g_in = in; g_n = TOT;
  struct Out o = {0}; uint8_t oo[128];
  w_parse_object(in, TOT, 0, L, &o, (void*)oo);
  VOBS(o.code); VOBS(o.consumed); VOBS(g_calls); VOBS(g_keyc);
  if (g_madd_failed) { VASSERT(o.code == NOMEM && g_calls == g_gets - 1, "a member slot that cannot be allocated: NoMemory, its value is not parsed (C05)"); VWITNESS("nomem"); return; }
  unsigned nc, nk, cons; int r = ref_object(L, &nc, &nk, &cons);
  if (r < 0) { VASSUME(0); }
  VASSERT(o.code <= 5 && (int)o.code == r, "code equals the reference object recogniser");
  VASSERT(g_calls == nc && g_keyc == nk, "keys and values are parsed exactly when the grammar asks for them");
  VASSERT(o.consumed == cons && o.consumed <= g_n, "bytes consumed equal the reference; never beyond the input");
  if (r == OK) VASSERT(o.latched == 0, "closing brace consumed without look-ahead");
  VASSERT(!g_seq_bad && g_gets == g_calls + ((r != OK && nk > nc && g_kcode[nk - 1 < MAXC ? nk - 1 : MAXC] == OK && g_gets > g_calls) ? 1 : 0), "each parsed key is looked up once before its value is parsed");
  unsigned clears = 0, adds = 0;
  for (unsigned c = 0; c < MAXC; c++) if (c < g_calls) {
    VASSERT(g_limit_seen[c] == (uint8_t)(L - 1), "every value receives the nesting limit minus one"); VASSERT(g_kind[c] == 0, "without a filter nothing is skipped");
    if (g_found[c]) { VASSERT(g_child_slot[c] == &g_existing[c], "a repeated key: the value is parsed into the EXISTING member (last occurrence wins)"); clears++; }
    else { VASSERT(g_child_slot[c] == &g_member[c], "a new key: the value is parsed into the member just appended"); adds++; }
  }
  VASSERT(g_clears == clears && g_madds >= adds && g_saves == g_madds, "an existing member is cleared exactly once before being re-parsed; a new key is saved once and added once");
  for (unsigned c = 0, k = 0; c < MAXC; c++) if (c < g_calls && g_found[c]) { VASSERT(g_cleared[k] == &g_existing[c], "the member that is cleared is the one found"); k++; }
  if (L == 0) { VASSERT(o.code == TOODEEP && g_calls == 0 && g_keyc == 0, "limit 0: TooDeep first"); VWITNESS("toodeep"); }
  if (o.code == TOODEEP && L != 0) VASSERT(g_calls >= 1 && g_code[g_calls - 1 < MAXC ? g_calls - 1 : MAXC] == TOODEEP, "TooDeep otherwise only propagated from a value");
  if (r == OK && nc == 1 && g_found[0]) VWITNESS("dup"); if (r == OK && nc == 1 && !g_found[0]) VWITNESS("new"); if (r == INVALID) VWITNESS("invalid");
}
#endif

/* ================= parseArray<Filter>: the element filter decides, per element, between parsing and skipping */
#ifdef CUT_PV_FILTER
static unsigned g_filter_child_allow[MAXC + 1];
uint32_t CUT_PV_FILTER(struct S_AJ__detail__JsonDeserializer* d, struct S_AJ__detail__VariantData* v, struct S_AJ__detail__VariantData* filter_data, struct S_AJ__detail__ResourceManager* filter_rm, uint8_t limit) {
  g_child_slot[g_calls < MAXC ? g_calls : MAXC] = v;
  return child(d, limit, 0);
}
#ifndef FSHAPE
#define FSHAPE 2
#endif
void h_parse_array_filter(void) {
  uint8_t in[TOT]; in[0] = '['; for (unsigned i = 1; i < TOT; i++) in[i] = vin_u8();
  uint8_t L = vin_u8(); g_in = in; g_n = TOT;
  struct Out o = {0};
  w_parse_array_f(in, TOT, L, FSHAPE, &o);
  /* projection rule for an array input: filter true or an array filter admit the array; the element filter is `true` (keep),
     the first element of an array filter, else nothing */
  const int admit = FSHAPE == 0 || FSHAPE == 2 || FSHAPE == 3 || FSHAPE == 4;
  const int keep_elements = FSHAPE == 0 || FSHAPE == 2;
  VASSERT((o.aux & 1) == (unsigned)admit, "an array is created only when the filter admits arrays");
  if (g_add_failed) { VASSERT(o.code == NOMEM, "allocation failure => NoMemory"); return; }
  unsigned nc, cons, la; int r = ref_array(L, admit ? 0 : 1, &nc, &cons, &la);
  common_checks(&o, L, r, nc, cons, la);
  for (unsigned c = 0; c < MAXC; c++) if (c < g_calls) VASSERT(g_kind[c] == (keep_elements ? 0u : 1u), "elements are parsed when the element filter allows them and skipped otherwise");
  VASSERT(g_adds == (keep_elements ? g_calls : 0u), "slots are appended only for kept elements: filtering never needs more memory than the unfiltered run");
  if (r == OK && nc >= 1) VWITNESS("elements"); if (r == INVALID) VWITNESS("invalid");
}
#endif

/* ================= parseObject<Filter>: the member filter decides, per member, between lookup/create/parse and skip.
 * FSHAPE 0 true, 1 {"k":true}, 2 {"x":true}, 3 {}, 4 {"*":true}; every key produced by the (cut) key scanner is "k". */
#if defined(CUT_PKEY) && defined(CUT_PV_FILTER)
#ifndef FSHAPE
#define FSHAPE 1
#endif
void h_parse_object_filter(void) {
  uint8_t in[TOT]; in[0] = '{'; for (unsigned i = 1; i < TOT; i++) in[i] = vin_u8();
  uint8_t L = vin_u8(); g_in = in; g_n = TOT;
  struct Out o = {0};
  w_parse_object_f(in, TOT, L, FSHAPE, &o);
  const int keep = FSHAPE == 0 || FSHAPE == 1 || FSHAPE == 4;
  VASSERT((o.aux & 1) == 1u, "true and every object filter admit an object");
  if (g_madd_failed) { VASSERT(o.code == NOMEM, "a member slot that cannot be allocated: NoMemory"); return; }
  unsigned nc, nk, cons; int r = ref_object(L, &nc, &nk, &cons);
  if (r < 0) { VASSUME(0); }
  VASSERT(o.code <= 5 && (int)o.code == r, "same codes as the reference object recogniser, whatever the filter keeps");
  VASSERT(g_calls == nc && g_keyc == nk && o.consumed == cons, "keys and values are scanned exactly when the grammar asks for them; same bytes consumed");
  for (unsigned c = 0; c < MAXC; c++) if (c < g_calls) {
    VASSERT(g_limit_seen[c] == (uint8_t)(L - 1), "every value receives the nesting limit minus one, kept or discarded (TooDeep also inside discarded parts)");
    VASSERT(g_kind[c] == (keep ? 0u : 1u), "a member is parsed when its filter allows it and skipped otherwise");
  }
  VASSERT(keep || (g_gets == 0 && g_madds == 0 && g_saves == 0 && g_clears == 0), "a discarded member is neither looked up nor created nor cleared: filtering never requests more memory");
  if (L == 0) VASSERT(o.code == TOODEEP && g_calls == 0 && g_keyc == 0, "limit 0: TooDeep first");
  if (r == OK && nc >= 1) VWITNESS("members"); if (r == INVALID) VWITNESS("invalid");
}
#endif
