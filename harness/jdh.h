/* shared by the JsonDeserializer harnesses */
#ifndef JDH_H
#define JDH_H
#include "vh.h"
enum { OK = 0, EMPTY = 1, INCOMPLETE = 2, INVALID = 3, NOMEM = 4, TOODEEP = 5 };
struct Out { uint32_t code, consumed, latched, latch_char, found, aux, aux2; };
static inline int is_hex(uint8_t c) { return (c >= '0' && c <= '9') || (c >= 'a' && c <= 'f') || (c >= 'A' && c <= 'F'); }
static inline unsigned hexval(uint8_t c) { return c <= '9' ? c - '0' : (c | 0x20) - 'a' + 10; }
static inline uint8_t ref_unescape(uint8_t c) {
  switch (c) { case '"': return '"'; case '\\': return '\\'; case '/': return '/'; case '\'': return '\''; case 'b': return 8; case 'f': return 12; case 'n': return 10; case 'r': return 13; case 't': return 9; }
  return 0;
}
static inline unsigned ref_utf8(uint32_t cp, uint8_t* o) {
  if (cp < 0x80) { o[0] = (uint8_t)cp; return 1; }
  if (cp < 0x800) { o[0] = 0xC0 | (cp >> 6); o[1] = 0x80 | (cp & 0x3F); return 2; }
  if (cp < 0x10000) { o[0] = 0xE0 | (cp >> 12); o[1] = 0x80 | ((cp >> 6) & 0x3F); o[2] = 0x80 | (cp & 0x3F); return 3; }
  o[0] = 0xF0 | (cp >> 18); o[1] = 0x80 | ((cp >> 12) & 0x3F); o[2] = 0x80 | ((cp >> 6) & 0x3F); o[3] = 0x80 | (cp & 0x3F); return 4;
}
static inline int is_blank(uint8_t c) { return c == ' ' || c == '\t' || c == '\r' || c == '\n'; }
#endif
