/* K1 kernels of the text formatter, the bounded writer, UTF-16/UTF-8, escape tables, byte order, nesting counter */
#include "vh.h"
#include "num.h"
typedef unsigned __int128 u128;
#define GUARD 0xA5
#ifndef NEG
#define NEG 0
#endif
#ifndef WD
#define WD 6
#endif

/* ---- writeInteger: digits re-read Horner-wise equal the value; canonical form; count == bytes */
#define H_WI_U(name, T, wfn, MAXD) void h_wi_##name(void) { \
  T v = (T)vin_u64(); uint8_t buf[32]; memset(buf, GUARD, 32); \
  uint64_t n = wfn(v, buf + 4, 24); VOBS(n); VOBSB(buf, 32); \
  /* specification: digit k (from the right) is (v / 10^k) % 10; the text has as many digits as needed, at least one */ \
  uint8_t d[MAXD]; unsigned nd = 0; T x = v; \
  for (unsigned k = 0; k < MAXD; k++) { d[k] = (uint8_t)(x % 10); x = (T)(x / 10); nd = (d[k] != 0 || k == 0) ? k + 1 : nd; } \
  VASSERT(n == nd, "number of digits"); \
  for (unsigned k = 0; k < MAXD; k++) if (k < nd) VASSERT(buf[4 + nd - 1 - k] == (uint8_t)('0' + d[k]), "digit k is (v / 10^k) % 10"); \
  VASSERT(buf[3] == GUARD && buf[4 + nd] == GUARD, "nothing written around the digits"); VWITNESS("any"); }
H_WI_U(u64, uint64_t, w_wi_u64, 20) H_WI_U(u32, uint32_t, w_wi_u32, 10) H_WI_U(u16, uint16_t, w_wi_u16, 5)
#define H_WI_S(name, T, UT, wfn, MAXD) void h_wi_##name(void) { \
  /* sign fixed per obligation (NEG); the value is built so that the sign bit is syntactically constant, which lets the \
     solver share the division chain of the code with the one of the specification */ \
  UT raw = (UT)vin_u64(); const UT SB = (UT)((UT)1 << (sizeof(T) * 8 - 1)); \
  T v = NEG ? (T)(raw | SB) : (T)(raw & (UT)~SB); uint8_t buf[32]; memset(buf, GUARD, 32); \
  uint64_t n = wfn(v, buf + 4, 24); VOBS(n); VOBSB(buf, 32); \
  const unsigned neg = NEG; UT x = neg ? (UT)((UT)(~(UT)v) + 1) : (UT)v; \
  uint8_t d[MAXD]; unsigned nd = 0; \
  for (unsigned k = 0; k < MAXD; k++) { d[k] = (uint8_t)(x % 10); x = (UT)(x / 10); nd = (d[k] != 0 || k == 0) ? k + 1 : nd; } \
  VASSERT(n == nd + neg, "sign plus number of digits"); \
  VASSERT(!neg || buf[4] == '-', "minus sign first for negatives"); \
  for (unsigned k = 0; k < MAXD; k++) if (k < nd) VASSERT(buf[4 + neg + nd - 1 - k] == (uint8_t)('0' + d[k]), "digit k is (|v| / 10^k) % 10"); \
  VASSERT(buf[3] == GUARD && buf[4 + n] == GUARD, "nothing written around the text"); if (neg) VWITNESS("neg"); else VWITNESS("pos"); }
H_WI_S(i64, int64_t, uint64_t, w_wi_i64, 20) H_WI_S(i32, int32_t, uint32_t, w_wi_i32, 10) H_WI_S(i16, int16_t, uint16_t, w_wi_i16, 5) H_WI_S(i8, int8_t, uint8_t, w_wi_i8, 3)

#ifndef NEG
#define NEG 0
#endif
#ifndef WD
#define WD 6
#endif
/* ---- writeDecimals(value,width): '.' + exactly `width` digits, zero padded, denoting value mod 10^width */
void h_wdec(void) {
  uint32_t v = vin_u32(); const uint8_t w = WD;
  uint8_t buf[24]; memset(buf, GUARD, 24);
  uint64_t n = w_wdec(v, (int8_t)w, buf + 2, 20); VOBS(n); VOBSB(buf, 24);
  VASSERT(n == (uint64_t)w + 1, "dot plus width digits"); VASSERT(buf[2] == '.', "starts with a dot");
  uint32_t x = v;
  for (unsigned k = 0; k < WD; k++) { VASSERT(buf[2 + WD - k] == (uint8_t)('0' + x % 10), "digit k from the right is (v / 10^k) % 10"); x /= 10; }
  VASSERT(buf[1] == GUARD && buf[3 + WD] == GUARD, "nothing written around"); VWITNESS("any");
}

/* ---- writeChar: all 256 bytes. Only  " \ \b \f \n \r \t NUL  are rewritten */
void h_wchar(void) {
  uint8_t c = vin_u8(); uint8_t buf[16]; memset(buf, GUARD, 16);
  uint64_t n = w_wchar(c, buf + 2, 12); VOBS(n); VOBSB(buf, 16);
  uint8_t e = 0;
  switch (c) { case '"': e = '"'; break; case '\\': e = '\\'; break; case 8: e = 'b'; break; case 12: e = 'f'; break; case 10: e = 'n'; break; case 13: e = 'r'; break; case 9: e = 't'; break; }
  if (c == 0) { VASSERT(n == 6 && buf[2]=='\\' && buf[3]=='u' && buf[4]=='0' && buf[5]=='0' && buf[6]=='0' && buf[7]=='0', "NUL is written as \\u0000"); VWITNESS("nul"); }
  else if (e) { VASSERT(n == 2 && buf[2] == '\\' && buf[3] == e, "two-character escape"); VWITNESS("esc"); }
  else { VASSERT(n == 1 && buf[2] == c, "every other byte is copied verbatim"); VWITNESS("plain"); }
  VASSERT(buf[1] == GUARD && buf[2 + n] == GUARD, "nothing written around");
}
/* escape tables are inverse of each other (C07/C17) */
void h_escape_tables(void) {
  uint8_t c = vin_u8();
  uint8_t e = w_escape(c); VOBS(e);
  if (e) { VASSERT(w_unescape(e) == c, "unescape(escape(c)) == c"); VWITNESS("esc"); }
  uint8_t u = w_unescape(c); VOBS(u);
  /* accepted escape letters: " \ / ' b f n r t */
  int acc = c=='"'||c=='\\'||c=='/'||c=='\''||c=='b'||c=='f'||c=='n'||c=='r'||c=='t';
  VASSERT((u != 0) == acc, "exactly the nine escape letters are accepted");
  if (u && u != '/' && u != '\'') VASSERT(w_escape(u) == c, "escape(unescape(c)) == c for the seven bytes that are escaped on output");
  if (!e) VWITNESS("noesc");
}

/* ---- writeString(p,n) n<=3: output = quote + escaped bytes + quote, reference-escaper in the harness */
#ifndef NS
#define NS 3
#endif
static unsigned ref_escape(uint8_t c, uint8_t* o) {
  uint8_t e = 0;
  switch (c) { case '"': e = '"'; break; case '\\': e = '\\'; break; case 8: e = 'b'; break; case 12: e = 'f'; break; case 10: e = 'n'; break; case 13: e = 'r'; break; case 9: e = 't'; break; }
  if (c == 0) { o[0]='\\'; o[1]='u'; o[2]='0'; o[3]='0'; o[4]='0'; o[5]='0'; return 6; }
  if (e) { o[0] = '\\'; o[1] = e; return 2; }
  o[0] = c; return 1;
}
void h_wstr_n(void) {
  uint8_t s[NS]; for (unsigned i = 0; i < NS; i++) s[i] = vin_u8();
  uint32_t n = vin_u32(); VASSUME(n <= NS);
  uint32_t cap = vin_u32(); VASSUME(cap <= 6 * NS + 4);
  uint8_t buf[6 * NS + 8]; memset(buf, GUARD, sizeof buf);
  uint8_t ref[6 * NS + 2]; unsigned rl = 0; ref[rl++] = '"';
  for (unsigned i = 0; i < NS; i++) if (i < n) rl += ref_escape(s[i], ref + rl);
  ref[rl++] = '"';
  uint64_t r = w_wstr_n(s, n, buf + 2, cap); VOBS(r); VOBSB(buf, sizeof buf);
  VASSERT(r == (rl < cap ? rl : cap), "count == min(capacity, length)");
  for (unsigned i = 0; i < 6 * NS + 2; i++) if (i < rl && i < cap) VASSERT(buf[2 + i] == ref[i], "stored bytes are the prefix of the reference text");
  for (unsigned i = 0; i < sizeof buf; i++) if (i < 2 || i >= 2 + (rl < cap ? rl : cap)) VASSERT(buf[i] == GUARD, "no byte outside the stored prefix is written");
  if (cap < rl) VWITNESS("truncated"); else VWITNESS("fits");
}
/* ---- StaticStringWriter::write(s,n) and write(c) from symbolic capacity */
void h_ssw(void) {
  uint8_t s[6]; for (unsigned i = 0; i < 6; i++) s[i] = vin_u8();
  uint32_t n = vin_u32(); VASSUME(n <= 6);
  uint32_t cap = vin_u32(); VASSUME(cap <= 8);
  uint8_t buf[12]; memset(buf, GUARD, 12);
  uint64_t second = 99; uint64_t a = w_ssw_write_n(buf + 2, cap, s, n, &second); VOBS(a); VOBS(second); VOBSB(buf, 12);
  uint32_t st = n < cap ? n : cap;
  VASSERT(a == st, "write(s,n) returns the stored count = min(n, room)");
  for (unsigned i = 0; i < 6; i++) if (i < st) VASSERT(buf[2 + i] == s[i], "stored bytes are the prefix");
  VASSERT(second == (st < cap ? 1u : 0u), "write(c) stores one byte iff room is left");
  if (st < cap) VASSERT(buf[2 + st] == '#', "single byte stored after the prefix");
  for (unsigned i = 0; i < 12; i++) if (i < 2 || i >= 2 + st + (unsigned)second) VASSERT(buf[i] == GUARD, "nothing outside [buf,buf+cap) or beyond the stored bytes");
  if (n > cap) VWITNESS("short"); else VWITNESS("full");
}

/* ---- UTF-16 code units -> UTF-8 (C17) */
static unsigned ref_utf8(uint32_t cp, uint8_t* o) {
  if (cp < 0x80) { o[0] = (uint8_t)cp; return 1; }
  if (cp < 0x800) { o[0] = 0xC0 | (cp >> 6); o[1] = 0x80 | (cp & 0x3F); return 2; }
  if (cp < 0x10000) { o[0] = 0xE0 | (cp >> 12); o[1] = 0x80 | ((cp >> 6) & 0x3F); o[2] = 0x80 | (cp & 0x3F); return 3; }
  o[0] = 0xF0 | (cp >> 18); o[1] = 0x80 | ((cp >> 12) & 0x3F); o[2] = 0x80 | ((cp >> 6) & 0x3F); o[3] = 0x80 | (cp & 0x3F); return 4;
}
void h_utf8_cp(void) {   /* every code point up to 0x10FFFF */
  uint32_t cp = vin_u32(); VASSUME(cp <= 0x10FFFF);
  uint8_t out[8], ref[4]; unsigned n = w_utf8(cp, out); unsigned rn = ref_utf8(cp, ref); VOBS(n); VOBSB(out, 4);
  if (cp == 0) { VASSERT(n == 1 && out[0] == 0, "U+0000 is a single NUL byte"); return; }
  VASSERT(n == rn, "UTF-8 length"); for (unsigned i = 0; i < 4; i++) if (i < rn) VASSERT(out[i] == ref[i], "UTF-8 bytes");
  if (rn == 4) VWITNESS("4"); if (rn == 3) VWITNESS("3"); if (rn == 2) VWITNESS("2"); if (rn == 1) VWITNESS("1");
}
void h_utf16_one(void) { /* all 2^16 single units */
  uint16_t u = vin_u16(); uint8_t out[8], ref[4]; uint32_t done = 0;
  unsigned n = w_utf16_units(u, 0, 0, out, &done); VOBS(n); VOBS(done);
  if (u >= 0xD800 && u < 0xDC00) { VASSERT(n == 0 && done == 0, "high surrogate waits for its partner"); VWITNESS("high"); return; }
  VASSERT(done == 1, "a non-high unit completes a code point");
  if (u >= 0xDC00 && u < 0xE000) { VWITNESS("lonelow"); VASSERT(n <= 4, "unpaired low surrogate: bounded output, no crash"); return; }
  unsigned rn = ref_utf8(u, ref);
  VASSERT(n == rn, "BMP scalar: UTF-8 length"); for (unsigned i = 0; i < 3; i++) if (i < rn) VASSERT(out[i] == ref[i], "BMP scalar: UTF-8 bytes");
  VWITNESS("bmp");
}
void h_utf16_pair(void) { /* all 2^32 ordered pairs of units */
  uint16_t a = vin_u16(), b = vin_u16(); uint8_t out[8], ref[4]; uint32_t done = 0;
  unsigned n = w_utf16_units(a, b, 1, out, &done); VOBS(n); VOBS(done); VOBSB(out, 8);
  VASSERT(n <= 8, "never more than 8 bytes for two units");
  if (a >= 0xD800 && a < 0xDC00 && b >= 0xDC00 && b < 0xE000) {
    uint32_t cp = 0x10000 + (((uint32_t)(a & 0x3FF)) << 10 | (b & 0x3FF));
    unsigned rn = ref_utf8(cp, ref);
    VASSERT(done == 2 && n == 4 && rn == 4, "surrogate pair gives one 4-byte sequence");
    for (unsigned i = 0; i < 4; i++) VASSERT(out[i] == ref[i], "surrogate pair: UTF-8 bytes of the combined code point");
    VWITNESS("pair");
  } else VWITNESS("other");
}

/* ---- byte order */
void h_fix_endian(void) {
  uint8_t p[8], q[8]; for (unsigned i = 0; i < 8; i++) q[i] = p[i] = vin_u8();
  w_fix8(p); for (unsigned i = 0; i < 8; i++) VASSERT(p[i] == q[7 - i], "8-byte swap reverses"); w_fix8(p); for (unsigned i = 0; i < 8; i++) VASSERT(p[i] == q[i], "involution");
  w_fix8d(p); for (unsigned i = 0; i < 8; i++) VASSERT(p[i] == q[7 - i], "8-byte swap on a double reverses the bytes (no FP canonicalisation)"); w_fix8d(p);
  w_fix4(p); for (unsigned i = 0; i < 4; i++) VASSERT(p[i] == q[3 - i], "4-byte swap reverses"); VASSERT(p[4] == q[4], "4-byte swap touches 4 bytes"); w_fix4(p);
  w_fix2(p); VASSERT(p[0] == q[1] && p[1] == q[0] && p[2] == q[2], "2-byte swap"); VOBSB(p, 8); VWITNESS("any");
}
/* ---- nesting counter */
void h_nesting_counter(void) {
  uint8_t n = vin_u8();
  VASSERT((w_nl_reached(n) & 1) == (n == 0), "reached() iff the counter is zero");
  if (n >= 1) VASSERT((w_nl_dec_reached(n) & 1) == (n == 1), "decrement() subtracts one");
  if (n >= 2) { VASSERT((w_nl_dec_dec_reached(n) & 1) == (n == 2), "two decrements subtract two"); VWITNESS("deep"); }
}
/* ---- doubleToFloat (ARDUINOJSON_USE_DOUBLE=0 path of the MessagePack reader): big-endian bytes in, big-endian bytes out */
void h_d2f(void) {
  double d = vin_f64(); uint64_t bits = vbits64(d); uint8_t in[8], out[4];
  for (unsigned i = 0; i < 8; i++) in[i] = (uint8_t)(bits >> (56 - 8 * i));
  w_d2f(in, out);
  uint32_t fb = ((uint32_t)out[0] << 24) | ((uint32_t)out[1] << 16) | ((uint32_t)out[2] << 8) | out[3]; float f = vin_unbits32(fb); VOBS(fb);
  double a = d < 0 ? -d : d;
  if (d != d) { VASSERT(f != f, "NaN stays NaN"); VWITNESS("nan"); return; }
  VASSERT((fb >> 31) == (uint32_t)(bits >> 63), "sign preserved");
  if (a >= 3.402823669209385e38 /* 2^128 */) { VASSERT(f == (d < 0 ? -__builtin_inff() : __builtin_inff()), "magnitude beyond the float range becomes +-infinity, never a finite value of the wrong magnitude"); VWITNESS("big"); return; }
  if (a > 3.4028234663852886e38) { float af = f < 0 ? -f : f; VASSERT(af == 3.4028234663852886e38f || af == __builtin_inff(), "between FLT_MAX and 2^128: FLT_MAX (truncation) or infinity (rounding)"); return; }
  if (a < 1.1754943508222875e-38) { VASSERT((f < 0 ? -f : f) <= 1.1754943508222875e-38f, "magnitude below the float range becomes zero or a subnormal, never a larger value"); VWITNESS("tiny"); return; }
  /* in range: the float just below or just above d in magnitude (truncation or round-to-nearest are both accepted) */
  float n = (float)d; double fd = (double)f, nd = (double)n;
  double lo = fd < nd ? fd : nd, hi = fd < nd ? nd : fd;
  VASSERT(fd == nd || (lo <= d && d <= hi && (vbits32(f) + 1 == vbits32(n) || vbits32(n) + 1 == vbits32(f))), "in range: one of the two floats that bracket the double");
  VWITNESS("inrange");
}
