#!/usr/bin/env python3
"""Prototype LLVM-14 textual IR -> C translator (typed-pointer IR, x86_64).

All pointers become `uint8_t*`; memory is accessed through casts at byte
offsets computed from the LLVM data layout; SSA values become C locals;
phi nodes are lowered with shadow variables on edges.
"""
import re, sys, struct

PTR = 8

# ---------------------------------------------------------------- types
class T:  # base
    pass

class IntT(T):
    def __init__(s, bits): s.bits = bits
    def size(s): return max(1, (s.bits + 7) // 8) if s.bits not in (1,) else 1
    def align(s): return min(8, s.size()) if s.bits <= 64 else 16
    def c(s):
        if s.bits == 1: return 'uint8_t'
        if s.bits <= 8: return 'uint8_t'
        if s.bits <= 16: return 'uint16_t'
        if s.bits <= 32: return 'uint32_t'
        if s.bits <= 64: return 'uint64_t'
        return 'unsigned __int128'
    def sc(s):
        return {'uint8_t': 'int8_t', 'uint16_t': 'int16_t', 'uint32_t': 'int32_t',
                'uint64_t': 'int64_t', 'unsigned __int128': '__int128'}[s.c()]
    def __repr__(s): return 'i%d' % s.bits

class FloatT(T):
    def __init__(s, k): s.k = k
    def size(s): return 4 if s.k == 'float' else 8
    def align(s): return s.size()
    def c(s): return s.k
    def __repr__(s): return s.k

class PtrT(T):
    def __init__(s, to): s.to = to
    def size(s): return PTR
    def align(s): return PTR
    def c(s): return 'uint8_t*'
    def __repr__(s): return 'ptr'

class VoidT(T):
    def c(s): return 'void'
    def size(s): return 0
    def __repr__(s): return 'void'

class ArrT(T):
    def __init__(s, n, el): s.n, s.el = n, el
    def size(s): return s.n * s.el.size()
    def align(s): return s.el.align()
    def __repr__(s): return '[%d x %r]' % (s.n, s.el)

class StructT(T):
    def __init__(s, els, packed=False, name=None):
        s.els, s.packed, s.name = els, packed, name
        s._lay = None
    def layout(s):
        if s._lay is None:
            off, offs, al = 0, [], 1
            for e in s.els:
                a = 1 if s.packed else e.align()
                al = max(al, a)
                off = (off + a - 1) // a * a
                offs.append(off)
                off += e.size()
            off = (off + al - 1) // al * al
            s._lay = (offs, off, al)
        return s._lay
    def size(s): return s.layout()[1]
    def align(s): return s.layout()[2]
    def offset(s, i): return s.layout()[0][i]
    def __repr__(s): return s.name or ('{%s}' % ','.join(map(repr, s.els)))

class FuncT(T):
    def __init__(s, ret, args, vararg): s.ret, s.args, s.vararg = ret, args, vararg
    def size(s): return 1
    def align(s): return 1
    def __repr__(s): return 'fn'

class OpaqueT(T):
    def size(s): return 1
    def align(s): return 1

# ---------------------------------------------------------------- lexer
TOK = re.compile(r'''
    \s+ | ;[^\n]* |
    (?P<str>c?"(?:[^"\\]|\\.)*") |
    (?P<loc>%(?:"(?:[^"\\]|\\.)*"|[-a-zA-Z$._0-9]+)) |
    (?P<glob>@(?:"(?:[^"\\]|\\.)*"|[-a-zA-Z$._0-9]+)) |
    (?P<meta>![-a-zA-Z$._0-9]*(?:\([^)]*\))?) |
    (?P<attr>\#\d+) |
    (?P<num>-?\d+\.\d+(?:[eE][-+]?\d+)?|0x[KLMH]?[0-9A-Fa-f]+|-?\d+) |
    (?P<dots>\.\.\.) |
    (?P<id>[a-zA-Z_][-a-zA-Z_.0-9]*) |
    (?P<p>[\[\]{}()<>,=*:])
''', re.X)

def lex(s):
    out, i = [], 0
    while i < len(s):
        m = TOK.match(s, i)
        if not m: raise SyntaxError('lex: ' + s[i:i+40])
        i = m.end()
        if m.lastgroup: out.append((m.lastgroup, m.group(m.lastgroup)))
    return out

class P:
    def __init__(s, toks, mod): s.t, s.i, s.mod = toks, 0, mod
    def peek(s, k=0): return s.t[s.i + k] if s.i + k < len(s.t) else (None, None)
    def next(s): x = s.t[s.i]; s.i += 1; return x
    def accept(s, v):
        if s.peek()[1] == v: s.i += 1; return True
        return False
    def expect(s, v):
        x = s.next()
        if x[1] != v: raise SyntaxError('expected %r got %r near %r' % (v, x, s.t[max(0,s.i-8):s.i+4]))
    def at_end(s): return s.i >= len(s.t)

    def type(s):
        k, v = s.next()
        if k == 'id':
            if v == 'void': t = VoidT()
            elif v in ('float', 'double'): t = FloatT(v)
            elif re.fullmatch(r'i\d+', v): t = IntT(int(v[1:]))
            elif v == 'opaque': t = OpaqueT()
            elif v == 'ptr': t = PtrT(IntT(8))
            else: raise SyntaxError('type? ' + v)
        elif k == 'loc': t = s.mod.named(v)
        elif v == '[':
            n = int(s.next()[1]); s.expect('x'); el = s.type(); s.expect(']'); t = ArrT(n, el)
        elif v == '{':
            t = StructT(s.typelist('}'))
        elif v == '<':
            if s.peek()[1] == '{':
                s.next(); t = StructT(s.typelist('}'), packed=True); s.expect('>')
            else:
                raise SyntaxError('vector types unsupported')
        else: raise SyntaxError('type? %r' % v)
        while True:
            if s.accept('*'): t = PtrT(t)
            elif s.peek()[1] == '(':
                s.next(); args = []; va = False
                while not s.accept(')'):
                    if s.peek()[0] == 'dots': s.next(); va = True
                    else: args.append(s.type())
                    s.accept(',')
                t = FuncT(t, args, va)
            else: break
        return t
    def typelist(s, close):
        els = []
        while not s.accept(close):
            els.append(s.type()); s.accept(',')
        return els

PARAM_ATTRS = {'noundef','nonnull','nocapture','readonly','writeonly','readnone','signext','zeroext','returned',
    'noalias','inreg','nest','immarg','nofree','swiftself','swifterror'}

def skip_attrs(p):
    seen = set()
    while True:
        k, v = p.peek()
        if k == 'id' and v in PARAM_ATTRS: seen.add(v); p.next()
        elif k == 'id' and v in ('align', 'dereferenceable', 'dereferenceable_or_null'):
            p.next()
            if p.accept('('): p.next(); p.expect(')')
            else: p.next()
        elif k == 'id' and v in ('byval', 'sret', 'byref', 'preallocated', 'inalloca', 'elementtype'):
            p.next(); p.expect('('); p.type(); p.expect(')')
        else: break
    return seen

# ---------------------------------------------------------------- values
class V:
    """operand: kind in local/global/int/float/null/undef/zero/agg/str/cexpr"""
    def __init__(s, kind, ty, val=None): s.kind, s.ty, s.val = kind, ty, val

def parse_value(p, ty):
    k, v = p.peek()
    if k == 'loc': p.next(); return V('local', ty, v)
    if k == 'glob': p.next(); return V('global', ty, v)
    if k == 'num':
        p.next()
        if isinstance(ty, FloatT): return V('float', ty, v)
        return V('int', ty, int(v, 0) if not v.startswith('0x') else int(v, 16))
    if k == 'id':
        if v in ('true', 'false'): p.next(); return V('int', ty, 1 if v == 'true' else 0)
        if v == 'null': p.next(); return V('null', ty)
        if v in ('undef', 'poison'): p.next(); return V('undef', ty)
        if v == 'zeroinitializer': p.next(); return V('zero', ty)
        if v in ('getelementptr', 'bitcast', 'ptrtoint', 'inttoptr', 'trunc', 'zext', 'sext', 'add', 'sub', 'icmp', 'select', 'and', 'or'):
            return parse_cexpr(p, ty)
    if k == 'str':
        p.next(); return V('str', ty, decode_cstr(v))
    if v == '[':
        p.next(); els = []
        while not p.accept(']'):
            t = p.type(); els.append(parse_value(p, t)); p.accept(',')
        return V('agg', ty, els)
    if v == '{':
        p.next(); els = []
        while not p.accept('}'):
            t = p.type(); els.append(parse_value(p, t)); p.accept(',')
        return V('agg', ty, els)
    if v == '<':
        p.next(); p.expect('{'); els = []
        while not p.accept('}'):
            t = p.type(); els.append(parse_value(p, t)); p.accept(',')
        p.expect('>'); return V('agg', ty, els)
    raise SyntaxError('value? %r %r' % (k, v))

def decode_cstr(v):
    body = v[2:-1] if v.startswith('c') else v[1:-1]
    out = bytearray(); i = 0
    while i < len(body):
        if body[i] == '\\':
            if body[i+1] == '\\': out.append(92); i += 2
            else: out.append(int(body[i+1:i+3], 16)); i += 3
        else: out.append(ord(body[i])); i += 1
    return bytes(out)

def parse_cexpr(p, ty):
    op = p.next()[1]
    if op == 'getelementptr':
        p.accept('inbounds'); p.expect('(')
        base_t = p.type(); p.expect(',')
        pt = p.type(); ptr = parse_value(p, pt); idx = []
        while p.accept(','):
            p.accept('inrange')
            it = p.type(); idx.append(parse_value(p, it))
        p.expect(')')
        return V('cexpr', ty, ('gep', base_t, ptr, idx))
    if op in ('bitcast', 'ptrtoint', 'inttoptr', 'trunc', 'zext', 'sext'):
        p.expect('('); st = p.type(); sv = parse_value(p, st); p.expect('to'); dt = p.type(); p.expect(')')
        return V('cexpr', dt, (op, sv))
    if op in ('add', 'sub', 'and', 'or'):
        while p.peek()[1] in ('nuw', 'nsw'): p.next()
        p.expect('('); t1 = p.type(); a = parse_value(p, t1); p.expect(','); t2 = p.type(); b = parse_value(p, t2); p.expect(')')
        return V('cexpr', t1, (op, a, b))
    raise SyntaxError('cexpr ' + op)

# ---------------------------------------------------------------- module
class Module:
    def __init__(s):
        s.types = {}; s.globals = {}; s.funcs = {}; s.decls = {}; s.order = []
    def named(s, n):
        if n not in s.types: s.types[n] = StructT([], name=n)
        return s.types[n]

def split_top(text):
    """Yield top-level entities as (kind, text)."""
    lines = text.split('\n'); i = 0
    while i < len(lines):
        l = lines[i]
        if l.startswith('define'):
            j = i
            while lines[j] != '}': j += 1
            yield ('define', lines[i:j+1]); i = j + 1; continue
        if l.startswith('declare'): yield ('declare', l)
        elif l.startswith('@'): yield ('global', l)
        elif l.startswith('%') and ' = type ' in l: yield ('type', l)
        i += 1

def parse_module(text):
    m = Module()
    ents = list(split_top(text))
    for k, l in ents:
        if k == 'type':
            p = P(lex(l), m); name = p.next()[1]; p.expect('='); p.expect('type')
            t = m.named(name)
            if p.peek()[1] == 'opaque': t.els = [IntT(8)]; continue
            d = p.type(); t.els, t.packed = d.els, d.packed
    for k, l in ents:
        if k == 'global': parse_global(m, l)
        elif k == 'declare': parse_decl(m, l)
        elif k == 'define': parse_define(m, l)
    return m

LINKAGE = {'private','internal','linkonce_odr','linkonce','weak','weak_odr','external','common','available_externally',
    'dso_local','dso_preemptable','unnamed_addr','local_unnamed_addr','hidden','default','protected','thread_local',
    'externally_initialized','appending','extern_weak','fastcc','ccc','coldcc'}

def parse_global(m, l):
    p = P(lex(l), m); name = p.next()[1]; p.expect('=')
    while p.peek()[1] in LINKAGE: p.next()
    kind = p.next()[1]
    assert kind in ('global', 'constant'), l[:80]
    ty = p.type(); init = None
    if not p.at_end() and p.peek()[1] != ',': init = parse_value(p, ty)
    m.globals[name] = dict(ty=ty, init=init, const=(kind == 'constant'))
    m.order.append(('g', name))

def parse_header(p):
    while p.peek()[1] in LINKAGE: p.next()
    rattrs = skip_attrs(p)
    ret = p.type(); name = p.next()[1]; p.expect('(')
    args = []; va = False; sx = set()
    while not p.accept(')'):
        if p.peek()[0] == 'dots': p.next(); va = True
        else:
            t = p.type(); at = skip_attrs(p)
            an = None
            if p.peek()[0] == 'loc': an = p.next()[1]
            if 'signext' in at: sx.add(len(args))
            args.append((t, an))
        p.accept(',')
    p.last_sx = (sx, 'signext' in rattrs)
    return ret, name, args, va

def parse_decl(m, l):
    if re.search(r'@llvm\.(experimental\.noalias|dbg\.)', l): return
    p = P(lex(l), m); p.expect('declare')
    ret, name, args, va = parse_header(p)
    m.decls[name] = dict(ret=ret, args=args, va=va, sx=p.last_sx)

class Inst:
    def __init__(s, res, op, **kw): s.res, s.op = res, op; s.__dict__.update(kw)

def parse_define(m, lines):
    p = P(lex(lines[0]), m); p.expect('define')
    ret, name, args, va = parse_header(p)
    fsx = p.last_sx
    for i, (t, an) in enumerate(args):
        if an is None: args[i] = (t, '%' + str(i))
    blocks = []; cur = None
    first_label = '%' + str(len(args))
    joined = []; acc = None
    for l in lines[1:-1]:
        if acc is not None:
            acc += ' ' + l.strip()
            if l.strip().startswith(']'): joined.append(acc); acc = None
            continue
        if l.lstrip().startswith('switch ') and l.rstrip().endswith('['): acc = l; continue
        joined.append(l)
    for l in joined:
        if not l.strip() or l.lstrip().startswith(';'): continue
        mlab = re.match(r'^((?:"(?:[^"\\]|\\.)*"|[-a-zA-Z$._0-9]+)):', l)
        if mlab:
            cur = dict(label='%' + mlab.group(1), insts=[]); blocks.append(cur); continue
        if cur is None:
            cur = dict(label=first_label, insts=[]); blocks.append(cur)
        cur['insts'].append(parse_inst(P(lex(l), m), l))
    m.funcs[name] = dict(ret=ret, args=args, va=va, blocks=blocks, sx=fsx)
    m.order.append(('f', name))

BINOPS = {'add','sub','mul','udiv','sdiv','urem','srem','shl','lshr','ashr','and','or','xor','fadd','fsub','fmul','fdiv','frem'}
CASTS = {'trunc','zext','sext','fptrunc','fpext','fptoui','fptosi','uitofp','sitofp','ptrtoint','inttoptr','bitcast','addrspacecast'}
FMF = {'nnan','ninf','nsz','arcp','contract','afn','reassoc','fast'}

def parse_inst(p, raw):
    res = None
    if p.peek()[0] == 'loc' and p.peek(1)[1] == '=':
        res = p.next()[1]; p.next()
    op = p.next()[1]
    if op in ('tail', 'musttail', 'notail'): op = p.next()[1]
    if op in BINOPS:
        flags = set()
        while p.peek()[1] in ('nuw', 'nsw', 'exact') or p.peek()[1] in FMF: flags.add(p.next()[1])
        t = p.type(); a = parse_value(p, t); p.expect(','); b = parse_value(p, t)
        return Inst(res, 'bin', bop=op, ty=t, a=a, b=b, flags=flags)
    if op == 'fneg':
        while p.peek()[1] in FMF: p.next()
        t = p.type(); a = parse_value(p, t); return Inst(res, 'fneg', ty=t, a=a)
    if op in CASTS:
        st = p.type(); a = parse_value(p, st); p.expect('to'); dt = p.type()
        return Inst(res, 'cast', cop=op, a=a, ty=dt)
    if op in ('icmp', 'fcmp'):
        while p.peek()[1] in FMF: p.next()
        pred = p.next()[1]; t = p.type(); a = parse_value(p, t); p.expect(','); b = parse_value(p, t)
        return Inst(res, op, pred=pred, a=a, b=b, ty=IntT(1))
    if op == 'select':
        while p.peek()[1] in FMF: p.next()
        ct = p.type(); c = parse_value(p, ct); p.expect(','); t = p.type(); a = parse_value(p, t); p.expect(','); t2 = p.type(); b = parse_value(p, t2)
        return Inst(res, 'select', c=c, a=a, b=b, ty=t)
    if op == 'phi':
        while p.peek()[1] in FMF: p.next()
        t = p.type(); inc = []
        while p.accept('['):
            v = parse_value(p, t); p.expect(','); lab = p.next()[1]; p.expect(']'); inc.append((v, lab)); p.accept(',')
        return Inst(res, 'phi', ty=t, inc=inc)
    if op == 'br':
        if p.peek()[1] == 'label': p.next(); return Inst(None, 'br', dest=p.next()[1])
        t = p.type(); c = parse_value(p, t); p.expect(','); p.expect('label'); a = p.next()[1]; p.expect(','); p.expect('label'); b = p.next()[1]
        return Inst(None, 'condbr', c=c, a=a, b=b)
    if op == 'switch':
        t = p.type(); v = parse_value(p, t); p.expect(','); p.expect('label'); d = p.next()[1]; p.expect('[')
        cases = []
        while not p.accept(']'):
            ct = p.type(); cv = parse_value(p, ct); p.expect(','); p.expect('label'); cases.append((cv, p.next()[1]))
        return Inst(None, 'switch', v=v, default=d, cases=cases)
    if op == 'ret':
        t = p.type()
        if isinstance(t, VoidT): return Inst(None, 'ret', v=None)
        return Inst(None, 'ret', v=parse_value(p, t))
    if op == 'unreachable': return Inst(None, 'unreachable')
    if op == 'fence': return Inst(None, 'call', callee=V('global', PtrT(IntT(8)), '@llvm.dbg.fence'), args=[], ty=VoidT())
    if op == 'alloca':
        t = p.type(); n = None
        if p.accept(','):
            if p.peek()[1] != 'align':
                nt = p.type(); n = parse_value(p, nt)
        return Inst(res, 'alloca', aty=t, n=n, ty=PtrT(t))
    if op == 'load':
        p.accept('atomic'); p.accept('volatile'); t = p.type(); p.expect(','); pt = p.type(); a = parse_value(p, pt)
        return Inst(res, 'load', ty=t, a=a)
    if op == 'store':
        p.accept('atomic'); p.accept('volatile'); t = p.type(); v = parse_value(p, t); p.expect(','); pt = p.type(); a = parse_value(p, pt)
        return Inst(None, 'store', v=v, a=a)
    if op == 'getelementptr':
        p.accept('inbounds'); bt = p.type(); p.expect(','); pt = p.type(); a = parse_value(p, pt); idx = []
        while p.accept(','):
            it = p.type(); idx.append(parse_value(p, it))
        return Inst(res, 'gep', bt=bt, a=a, idx=idx, ty=PtrT(IntT(8)))
    if op == 'extractvalue':
        t = p.type(); a = parse_value(p, t); idx = []
        while p.accept(','): idx.append(int(p.next()[1]))
        rt = t
        for i in idx: rt = rt.els[i] if isinstance(rt, StructT) else rt.el
        return Inst(res, 'extractvalue', a=a, idx=idx, ty=rt)
    if op == 'insertvalue':
        t = p.type(); a = parse_value(p, t); p.expect(','); vt = p.type(); v = parse_value(p, vt); idx = []
        while p.accept(','): idx.append(int(p.next()[1]))
        return Inst(res, 'insertvalue', a=a, v=v, idx=idx, ty=t)
    if op == 'freeze':
        t = p.type(); a = parse_value(p, t); return Inst(res, 'freeze', a=a, ty=t)
    if op == 'call':
        while p.peek()[1] in FMF or p.peek()[1] in ('fastcc', 'ccc'): p.next()
        skip_attrs(p)
        rt = p.type()
        if isinstance(rt, FuncT): fty = rt; rt = fty.ret
        elif isinstance(rt, PtrT) and isinstance(rt.to, FuncT) and p.peek()[1] != '(':
            rt = rt.to.ret
        callee = parse_value(p, PtrT(IntT(8)))
        if callee.kind == 'global' and re.match(r'@llvm\.(experimental\.noalias|dbg\.)', callee.val):
            return Inst(None, 'call', callee=callee, args=[], ty=VoidT())
        p.expect('('); args = []
        while not p.accept(')'):
            t = p.type(); skip_attrs(p); args.append(parse_value(p, t)); p.accept(',')
        return Inst(res, 'call', callee=callee, args=args, ty=rt)
    raise SyntaxError('inst? ' + raw)

# ---------------------------------------------------------------- emit
def cname(n):
    n = n[1:]
    if n.startswith('"'): n = n[1:-1]
    return re.sub(r'[^A-Za-z0-9_]', lambda m: '_%02x' % ord(m.group()), n)

def lname(n): return 'v_' + cname(n)
def gname(n): return cname(n) if re.match(r'^@[A-Za-z_]', n) else 'g_' + cname(n)

class Emit:
    def __init__(s, m, opts):
        s.m, s.o, s.aggs, s.out = m, opts, {}, []
    def cty(s, t):
        if isinstance(t, (IntT, FloatT, PtrT, VoidT)): return t.c()
        if isinstance(t, (StructT, ArrT)):
            key = repr(t) + str(id(t) if isinstance(t, StructT) and t.name else '')
            if key not in s.aggs:
                nm = 'agg%d' % len(s.aggs); s.aggs[key] = (nm, t)
            return 'struct ' + s.aggs[key][0]
        if isinstance(t, FuncT): return 'uint8_t'
        raise TypeError(t)
    def aggdefs(s):
        done, out = set(), []
        def emit(key):
            if key in done: return
            nm, t = s.aggs[key]
            els = t.els if isinstance(t, StructT) else [t.el] * t.n
            for e in els:
                if isinstance(e, (StructT, ArrT)):
                    s.cty(e)
            done.add(key)
            for e in els:
                if isinstance(e, (StructT, ArrT)):
                    k2 = [k for k, (n2, t2) in s.aggs.items() if t2 is e or (repr(t2) == repr(e) and not (isinstance(e, StructT) and e.name))]
                    for k in k2: emit(k)
            out.append('struct %s { %s };' % (nm, ' '.join('%s f%d;' % (s.cty(e), i) for i, e in enumerate(els)) or 'char dummy;'))
        n = -1
        while n != len(s.aggs):
            n = len(s.aggs)
            for k in list(s.aggs): emit(k)
        return out

    # constant / operand rendering
    def val(s, v):
        t = v.ty
        if v.kind == 'local': return lname(v.val)
        if v.kind == 'global':
            if v.val in s.m.globals: return '((uint8_t*)&%s)' % gname(v.val)
            return '((uint8_t*)&%s)' % gname(v.val)
        if v.kind == 'int':
            if isinstance(t, PtrT): return '((uint8_t*)%d)' % v.val
            bits = t.bits; x = v.val & ((1 << bits) - 1)
            if bits > 64: return '((unsigned __int128)%dULL)' % x if x < 2**64 else '((((unsigned __int128)%dULL)<<64)|%dULL)' % (x >> 64, x & (2**64-1))
            return '((%s)%dU%s)' % (t.c(), x, 'LL' if bits > 32 else '')
        if v.kind == 'float':
            return s.fconst(t, v.val)
        if v.kind == 'null': return '((uint8_t*)0)'
        if v.kind in ('undef', 'zero'):
            if isinstance(t, (StructT, ArrT)): return '((%s){0})' % s.cty(t)
            if isinstance(t, FloatT): return '0.0'
            if isinstance(t, PtrT): return '((uint8_t*)0)'
            return '((%s)0)' % t.c()
        if v.kind == 'agg':
            return '((%s){%s})' % (s.cty(t), ', '.join(s.val(e) for e in v.val))
        if v.kind == 'cexpr': return s.cexpr(v)
        raise TypeError(v.kind)
    def fconst(s, t, txt):
        if txt.startswith('0x'):
            bits = int(txt, 16)
            d = struct.unpack('<d', struct.pack('<Q', bits))[0]
        else: d = float(txt)
        if d != d: return '(%s)__builtin_nan("")' % t.c()
        if d in (float('inf'), float('-inf')): return '(%s)(%s__builtin_inf())' % (t.c(), '-' if d < 0 else '')
        return '((%s)%s)' % (t.c(), d.hex())
    def cexpr(s, v):
        e = v.val
        if e[0] == 'gep':
            _, bt, ptr, idx = e
            return '(%s + %s)' % (s.val(ptr), s.gepoff(bt, idx))
        if e[0] == 'bitcast': return s.val(e[1])
        if e[0] == 'ptrtoint': return '((%s)(uintptr_t)%s)' % (v.ty.c(), s.val(e[1]))
        if e[0] == 'inttoptr': return '((uint8_t*)(uintptr_t)%s)' % s.val(e[1])
        if e[0] in ('add', 'sub', 'and', 'or'):
            return '((%s)(%s %s %s))' % (v.ty.c(), s.val(e[1]), {'add':'+','sub':'-','and':'&','or':'|'}[e[0]], s.val(e[2]))
        if e[0] in ('trunc', 'zext'): return '((%s)%s)' % (v.ty.c(), s.val(e[1]))
        raise TypeError(e[0])
    def gepoff(s, bt, idx):
        terms = []; const = 0; t = bt
        for n, i in enumerate(idx):
            if n == 0: sz = t.size()
            elif isinstance(t, StructT):
                assert i.kind == 'int'
                const += t.offset(i.val); t = t.els[i.val]; continue
            elif isinstance(t, ArrT): t = t.el; sz = t.size()
            else: raise TypeError('gep into %r' % t)
            if i.kind == 'int':
                x = i.val
                if x >= 1 << (i.ty.bits - 1): x -= 1 << i.ty.bits
                const += x * sz
            else:
                terms.append('(int64_t)(%s)%s * %d' % (i.ty.sc(), s.val(i), sz))
        terms.append(str(const))
        return '(' + ' + '.join(terms) + ')'

    # globals
    def ginit(s, v, t):
        """static initializer for value v of type t, as C initializer over struct agg"""
        if v is None or v.kind in ('zero', 'undef'): return '{0}' if isinstance(t, (StructT, ArrT)) else '0'
        if v.kind == 'str': return '{' + ','.join(str(b) for b in v.val) + '}'
        if v.kind == 'agg':
            els = t.els if isinstance(t, StructT) else [t.el] * t.n
            return '{' + ', '.join(s.ginit(e, et) for e, et in zip(v.val, els)) + '}'
        if isinstance(t, FloatT) and v.kind == 'float': return s.fconst(t, v.val)
        return s.val(v)
    def gdecl(s, name, g):
        t = g['ty']
        if isinstance(t, (StructT, ArrT)): return '%s %s' % (s.cty(t), gname(name))
        return '%s %s' % (s.cty(t), gname(name))

    def proto(s, name, f):
        args = ', '.join('%s %s' % (s.cty(t), lname(an)) for t, an in f['args']) or 'void'
        return '%s %s(%s)' % (s.cty(f['ret']), gname(name), args)

    def func(s, name, f):
        o = [s.proto(name, f) + ' {']
        decls = {}; phis = []
        for b in f['blocks']:
            for i in b['insts']:
                if i.res and i.op != 'alloca' and not isinstance(i.ty, VoidT):
                    decls[i.res] = i.ty
                if i.op == 'phi': phis.append(i)
        for r, t in decls.items(): o.append('  %s %s;' % (s.cty(t), lname(r)))
        for i in phis: o.append('  %s %s__in;' % (s.cty(i.ty), lname(i.res)))
        body = []
        for b in f['blocks']:
            body.append(' L_%s: ;' % cname(b['label']))
            for i in b['insts']:
                if i.op == 'phi': body.append('  %s = %s__in;' % (lname(i.res), lname(i.res)))
            for i in b['insts']:
                if i.op != 'phi': s.inst(i, b, f, body, o)
        o += body; o.append('}')
        return '\n'.join(o)

    def edge(s, frm, to, f):
        """assignments for phis in block `to` when coming from `frm`"""
        out = []
        tb = next(b for b in f['blocks'] if b['label'] == to)
        for i in tb['insts']:
            if i.op != 'phi': break
            for v, lab in i.inc:
                if lab == frm['label']:
                    out.append('%s__in = %s;' % (lname(i.res), s.val(v))); break
        return ' '.join(out) + ' goto L_%s;' % cname(to)

    def inst(s, i, b, f, o, head):
        R = lname(i.res) if i.res else None
        if i.op == 'bin':
            t = i.ty; a, bb = s.val(i.a), s.val(i.b); op = i.bop
            if op in ('fadd','fsub','fmul','fdiv'):
                o.append('  %s = %s %s %s;' % (R, a, {'fadd':'+','fsub':'-','fmul':'*','fdiv':'/'}[op], bb)); return
            ct, sct = t.c(), t.sc()
            mask = '' if t.bits in (8,16,32,64,128) else ' & %d' % ((1 << t.bits) - 1)
            if t.bits == 1: mask = ' & 1'
            if op in ('add','sub','mul','and','or','xor'):
                sym = {'add':'+','sub':'-','mul':'*','and':'&','or':'|','xor':'^'}[op]
                if s.o.get('ubchecks') and 'nsw' in i.flags and op in ('add','sub','mul'):
                    o.append('  %s = VERIF_NSW_OVF(%s, (%s)%s, (%s)%s) ? (%s)verif_poison_u64() : (%s)((%s)%s %s (%s)%s)%s;' % (R, op, sct, a, sct, bb, ct, ct, ct, a, sym, ct, bb, mask))
                else: o.append('  %s = (%s)((%s)%s %s (%s)%s)%s;' % (R, ct, ct, a, sym, ct, bb, mask))
            elif op in ('udiv','urem'):
                o.append('  %s = (%s)(%s %s %s);' % (R, ct, a, '/' if op == 'udiv' else '%', bb))
            elif op in ('sdiv','srem'):
                o.append('  %s = (%s)((%s)%s %s (%s)%s);' % (R, ct, sct, a, '/' if op == 'sdiv' else '%', sct, bb))
            elif op in ('shl', 'lshr', 'ashr'):
                # an over-wide shift yields poison in LLVM (legal when the result is unused, e.g. speculated switch
                # bit-tests): modelled as an arbitrary value, so any real dependence on it shows up downstream
                sym = '<<' if op == 'shl' else '>>'
                lt = sct if op == 'ashr' else ct
                expr = '(%s)((%s)%s %s %s)%s' % (ct, lt, a, sym, bb, mask if op == 'shl' else '')
                if i.b.kind == 'int': o.append('  %s = %s;' % (R, expr))
                elif s.o.get('ubchecks'): o.append('  %s = ((uint64_t)%s < %d) ? %s : (%s)verif_poison_u64();' % (R, bb, t.bits, expr, ct))
                else: o.append('  %s = %s;' % (R, expr))
            else: raise TypeError(op)
        elif i.op == 'fneg': o.append('  %s = -%s;' % (R, s.val(i.a)))
        elif i.op == 'cast':
            a = s.val(i.a); st, dt, op = i.a.ty, i.ty, i.cop
            if op in ('zext', 'trunc'):
                mask = ''
                if isinstance(dt, IntT) and dt.bits not in (8,16,32,64,128): mask = ' & %d' % ((1 << dt.bits) - 1)
                o.append('  %s = (%s)%s%s;' % (R, dt.c(), a, mask))
            elif op == 'sext':
                if st.bits == 1: o.append('  %s = (%s)(%s ? -1 : 0);' % (R, dt.c(), a))
                else: o.append('  %s = (%s)(%s)(%s)%s;' % (R, dt.c(), dt.sc(), st.sc(), a))
            elif op in ('fptrunc', 'fpext'): o.append('  %s = (%s)%s;' % (R, dt.c(), a))
            elif op == 'fptoui':
                if s.o.get('ubchecks'): o.append('  %s = VERIF_FPTOUI_OK(%s, %d) ? (%s)%s : (%s)verif_poison_u64();' % (R, a, dt.bits, dt.c(), a, dt.c()))
                else: o.append('  %s = (%s)%s;' % (R, dt.c(), a))
            elif op == 'fptosi':
                if s.o.get('ubchecks'): o.append('  %s = VERIF_FPTOSI_OK(%s, %d) ? (%s)(%s)%s : (%s)verif_poison_u64();' % (R, a, dt.bits, dt.c(), dt.sc(), a, dt.c()))
                else: o.append('  %s = (%s)(%s)%s;' % (R, dt.c(), dt.sc(), a))
            elif op == 'uitofp': o.append('  %s = (%s)%s;' % (R, dt.c(), a))
            elif op == 'sitofp': o.append('  %s = (%s)(%s)%s;' % (R, dt.c(), st.sc(), a))
            elif op == 'ptrtoint': o.append('  %s = (%s)(uintptr_t)%s;' % (R, dt.c(), a))
            elif op == 'inttoptr': o.append('  %s = (uint8_t*)(uintptr_t)%s;' % (R, a))
            elif op == 'bitcast':
                if isinstance(st, PtrT) and isinstance(dt, PtrT): o.append('  %s = %s;' % (R, a))
                else:
                    o.append('  { %s tmp__ = %s; memcpy(&%s, &tmp__, %d); }' % (s.cty(st), a, R, dt.size()))
            else: raise TypeError(op)
        elif i.op == 'icmp':
            a, bb = s.val(i.a), s.val(i.b); t = i.a.ty; pr = i.pred
            sym = {'eq':'==','ne':'!=','ugt':'>','uge':'>=','ult':'<','ule':'<=','sgt':'>','sge':'>=','slt':'<','sle':'<='}[pr]
            if isinstance(t, PtrT):
                if pr in ('eq', 'ne'): o.append('  %s = (%s %s %s);' % (R, a, sym, bb))
                else: o.append('  %s = ((uintptr_t)%s %s (uintptr_t)%s);' % (R, a, sym, bb))
            elif pr[0] == 's':
                if t.bits not in (8,16,32,64): raise TypeError('signed cmp i%d' % t.bits)
                o.append('  %s = ((%s)%s %s (%s)%s);' % (R, t.sc(), a, sym, t.sc(), bb))
            else: o.append('  %s = ((%s)%s %s (%s)%s);' % (R, t.c(), a, sym, t.c(), bb))
        elif i.op == 'fcmp':
            a, bb = s.val(i.a), s.val(i.b); pr = i.pred
            un = '(%s != %s || %s != %s)' % (a, a, bb, bb)
            base = {'eq':'==','gt':'>','ge':'>=','lt':'<','le':'<=','ne':'!='}
            if pr == 'ord': e = '!' + un
            elif pr == 'uno': e = un
            elif pr == 'true': e = '1'
            elif pr == 'false': e = '0'
            elif pr[0] == 'o':
                e = '(%s %s %s)' % (a, base[pr[1:]], bb)
                if pr == 'one': e = '(!%s && %s)' % (un, e)
            else:
                e = '(%s || %s %s %s)' % (un, a, base[pr[1:]], bb)
            o.append('  %s = %s;' % (R, e))
        elif i.op == 'select':
            o.append('  %s = %s ? %s : %s;' % (R, s.val(i.c), s.val(i.a), s.val(i.b)))
        elif i.op == 'freeze': o.append('  %s = %s;' % (R, s.val(i.a)))
        elif i.op == 'br': o.append('  ' + s.edge(b, i.dest, f))
        elif i.op == 'condbr':
            o.append('  if (%s) { %s } else { %s }' % (s.val(i.c), s.edge(b, i.a, f), s.edge(b, i.b, f)))
        elif i.op == 'switch':
            o.append('  switch (%s) {' % s.val(i.v))
            for cv, lab in i.cases: o.append('    case %s: { %s }' % (s.val(cv), s.edge(b, lab, f)))
            o.append('    default: { %s } }' % s.edge(b, i.default, f))
        elif i.op == 'ret':
            o.append('  return%s;' % ('' if i.v is None else ' ' + s.val(i.v)))
        elif i.op == 'unreachable': o.append('  VERIF_UNREACHABLE();')
        elif i.op == 'alloca':
            assert i.n is None or i.n.kind == 'int'
            n = (i.n.val if i.n else 1) * i.aty.size()
            head.append('  uint8_t %s__mem[%d] __attribute__((aligned(%d))); uint8_t* %s = %s__mem;' % (R, max(n, 1), max(i.aty.align(), 1), R, R))
        elif i.op == 'load':
            t = i.ty
            if s.o.get('memhook'): o.append('  VERIF_LOAD(%s, %d);' % (s.val(i.a), t.size()))
            if isinstance(t, IntT) and t.bits == 1: o.append('  %s = *(uint8_t*)%s & 1;' % (R, s.val(i.a)))
            else: o.append('  %s = *(%s*)%s;' % (R, s.cty(t), s.val(i.a)))
        elif i.op == 'store':
            t = i.v.ty
            if s.o.get('memhook'): o.append('  VERIF_STORE(%s, %d);' % (s.val(i.a), t.size()))
            o.append('  *(%s*)%s = %s;' % (s.cty(t), s.val(i.a), s.val(i.v)))
        elif i.op == 'gep':
            o.append('  %s = %s + %s;' % (R, s.val(i.a), s.gepoff(i.bt, i.idx)))
        elif i.op == 'extractvalue':
            o.append('  %s = %s%s;' % (R, s.val(i.a), ''.join('.f%d' % k for k in i.idx)))
        elif i.op == 'insertvalue':
            o.append('  %s = %s; %s%s = %s;' % (R, s.val(i.a), R, ''.join('.f%d' % k for k in i.idx), s.val(i.v)))
        elif i.op == 'call': s.call(i, R, o)
        else: raise TypeError(i.op)

    def call(s, i, R, o):
        args = [s.val(a) for a in i.args]
        asg = '' if isinstance(i.ty, VoidT) or not R else R + ' = '
        if i.callee.kind == 'global':
            n = i.callee.val[1:]
            if n.startswith('llvm.lifetime') or n.startswith('llvm.dbg') or n.startswith('llvm.experimental.noalias'): return
            if n.startswith('llvm.assume'): o.append('  VERIF_ASSUME(%s);' % args[0]); return
            if n.startswith('llvm.memcpy') : o.append('  memcpy(%s, %s, %s);' % tuple(args[:3])); return
            if n.startswith('llvm.memmove'): o.append('  memmove(%s, %s, %s);' % tuple(args[:3])); return
            if n.startswith('llvm.memset'): o.append('  memset(%s, %s, %s);' % tuple(args[:3])); return
            if n.startswith('llvm.abs'):
                t = i.ty; o.append('  %s(%s)((%s)%s < 0 ? -(%s)%s : (%s)%s);' % (asg, t.c(), t.sc(), args[0], t.sc(), args[0], t.sc(), args[0])); return
            m = re.match(r'llvm\.(u|s)(min|max)\.', n)
            if m:
                t = i.ty; ct = t.c() if m.group(1) == 'u' else t.sc()
                o.append('  %s(%s)((%s)%s %s (%s)%s ? %s : %s);' % (asg, t.c(), ct, args[0], '<' if m.group(2) == 'min' else '>', ct, args[1], args[0], args[1])); return
            if n.startswith('llvm.bswap'):
                o.append('  %s__builtin_bswap%d(%s);' % (asg, i.ty.bits, args[0])); return
            if n.startswith('llvm.fabs'): o.append('  %s__builtin_fabs%s(%s);' % (asg, 'f' if i.ty.k == 'float' else '', args[0])); return
            m = re.match(r'llvm\.fsh(l|r)\.i(\d+)', n)
            if m:
                bits = int(m.group(2)); t = i.ty; ct = t.c()
                sh = '((%s) %% %d)' % (args[2], bits)
                if m.group(1) == 'l':
                    o.append('  %s(%s)((%s) ? (((%s)%s << %s) | ((%s)%s >> (%d - %s))) : %s);' % (asg, ct, sh, ct, args[0], sh, ct, args[1], bits, sh, args[0]))
                else:
                    o.append('  %s(%s)((%s) ? (((%s)%s << (%d - %s)) | ((%s)%s >> %s)) : %s);' % (asg, ct, sh, ct, args[0], bits, sh, ct, args[1], sh, args[1]))
                return
            m = re.match(r'llvm\.(ctlz|cttz|ctpop)\.i(\d+)', n)
            if m:
                bits = int(m.group(2)); ct = i.ty.c(); op = m.group(1)
                suf = 'll' if bits == 64 else ''
                if op == 'ctpop': o.append('  %s(%s)__builtin_popcount%s(%s);' % (asg, ct, suf, args[0]))
                elif op == 'ctlz': o.append('  %s(%s)(%s ? __builtin_clz%s(%s) - %d : %d);' % (asg, ct, args[0], suf, args[0], (64 if bits == 64 else 32) - bits, bits))
                else: o.append('  %s(%s)(%s ? __builtin_ctz%s(%s) : %d);' % (asg, ct, args[0], suf, args[0], bits))
                return
            m = re.match(r'llvm\.(u|s)(add|sub|mul)\.with\.overflow\.i(\d+)', n)
            if m:
                t = i.ty; et = t.els[0]; ct = et.c() if m.group(1) == 'u' else et.sc()
                o.append('  { %s r__; %s.f1 = __builtin_%s_overflow((%s)%s, (%s)%s, &r__); %s.f0 = (%s)r__; }' % (ct, R, m.group(2), ct, args[0], ct, args[1], R, et.c())); return
            m = re.match(r'llvm\.u(add|sub)\.sat\.i(\d+)', n)
            if m:
                ct = i.ty.c()
                if m.group(1) == 'sub': o.append('  %s(%s)((%s)%s > (%s)%s ? (%s)%s - (%s)%s : 0);' % (asg, ct, ct, args[0], ct, args[1], ct, args[0], ct, args[1]))
                else: o.append('  %s(%s)((%s)((%s)%s + (%s)%s) < (%s)%s ? (%s)-1 : (%s)((%s)%s + (%s)%s));' % (asg, ct, ct, ct, args[0], ct, args[1], ct, args[0], ct, ct, ct, args[0], ct, args[1]))
                return
            if n.startswith('llvm.'): raise TypeError('intrinsic ' + n)
            if i.callee.val in s.m.funcs or i.callee.val in s.m.decls:
                o.append('  %s%s(%s);' % (asg, gname(i.callee.val), ', '.join(args))); return
            raise TypeError('unknown callee ' + n)
        # indirect
        fpt = '%s (*)(%s)' % (s.cty(i.ty), ', '.join(s.cty(a.ty) for a in i.args) or 'void')
        o.append('  %s((%s)%s)(%s);' % (asg, fpt, s.val(i.callee), ', '.join(args)))

LIBC = {'malloc': 'void* malloc(size_t)', 'free': 'void free(void*)', 'realloc': 'void* realloc(void*, size_t)',
        'strlen': 'size_t strlen(const char*)', 'strcmp': 'int strcmp(const char*, const char*)',
        'memcmp': 'int memcmp(const void*, const void*, size_t)', 'memcpy': None, 'memset': None, 'memmove': None,
        'strncmp': None, 'abort': None, 'bcmp': 'int bcmp(const void*, const void*, size_t)'}

def translate(text, opts):
    m = parse_module(text)
    e = Emit(m, opts)
    omit = opts.get('omit')
    protos, bodies, gdefs = [], [], []
    for name, d in m.decls.items():
        n = name[1:]
        if n.startswith('llvm.') or n in LIBC: continue
        protos.append(e.proto(name, dict(ret=d['ret'], args=[(t, '%a' + str(k)) for k, (t, _) in enumerate(d['args'])])) + ';')
    for name, f in m.funcs.items(): protos.append(e.proto(name, f) + ';')
    for name, g in m.globals.items():
        gdefs.append('extern %s%s;' % ('const ' if g['const'] and g['init'] is not None and opts.get('constglobals', True) else '', e.gdecl(name, g)))
    ginits = []
    for name, g in m.globals.items():
        if g['init'] is not None:
            ginits.append('%s%s = %s;' % ('const ' if g['const'] and opts.get('constglobals', True) else '', e.gdecl(name, g), e.ginit(g['init'], g['ty'])))
    for name, f in m.funcs.items():
        if omit and re.search(omit, name): continue
        bodies.append(e.func(name, f))
    hdr = ['#include <stdint.h>', '#include <stddef.h>', '#include <string.h>', '#include <stdlib.h>', '#include "verif_rt.h"']
    # libc shims with uint8_t* signatures
    shims = []
    used = set(m.decls) | set(m.funcs)
    out = hdr + e.aggdefs()
    # gdefs may reference aggs created during emission -> emit aggdefs after everything
    body_txt = '\n\n'.join(bodies)
    out = hdr + e.aggdefs() + [x.replace('const ', '', 1) if False else x for x in []]
    res = '\n'.join(hdr) + '\n' + '\n'.join(e.aggdefs()) + '\n'
    for name in m.decls:
        n = name[1:]
        if n in ('malloc',): shims.append('#define malloc(n) ((uint8_t*)malloc(n))')
        if n in ('realloc',): shims.append('#define realloc(p,n) ((uint8_t*)realloc(p,n))')
        if n in ('strlen',): shims.append('#define strlen(p) strlen((const char*)(p))')
        if n in ('strcmp',): shims.append('#define strcmp(a,b) ((uint32_t)strcmp((const char*)(a),(const char*)(b)))')
        if n in ('memcmp',): shims.append('#define memcmp(a,b,n) ((uint32_t)memcmp((a),(b),(n)))')
        if n in ('bcmp',): shims.append('#define bcmp(a,b,n) ((uint32_t)memcmp((a),(b),(n)))')
    res += '\n'.join(shims) + '\n' + '\n'.join(protos) + '\n'
    res += '\n'.join(('extern ' + x) if not x.startswith('extern') else x for x in gdefs) + '\n'
    res += '\n'.join(ginits) + '\n\n' + body_txt + '\n'
    return res

if __name__ == '__main__':
    import argparse
    ap = argparse.ArgumentParser()
    ap.add_argument('ll'); ap.add_argument('-o', default='-')
    ap.add_argument('--omit'); ap.add_argument('--ubchecks', action='store_true'); ap.add_argument('--memhook', action='store_true')
    a = ap.parse_args()
    txt = translate(open(a.ll).read(), dict(omit=a.omit, ubchecks=a.ubchecks, memhook=a.memhook))
    (sys.stdout if a.o == '-' else open(a.o, 'w')).write(txt)
