#!/usr/bin/env python3
"""Verification framework driver: builds units from /repo's working tree
(clang IR -> typed C), runs CBMC obligations with witness twins, validates
the translation natively, replays counterexamples against natively compiled
real code, and writes evidence files."""
import os, re, sys, json, time, shutil, subprocess, hashlib, resource, threading, tempfile
from concurrent.futures import ThreadPoolExecutor

ROOT = os.path.dirname(os.path.dirname(os.path.abspath(__file__)))
ENG = os.path.join(ROOT, 'engine')
REPO = os.environ.get('VERIF_REPO', '/repo')
sys.path.insert(0, ENG)
import irtyped

NCPU = int(os.environ.get('VERIF_JOBS', str(os.cpu_count() or 4)))

CLANG_FLAGS = ['-std=c++17', '-O1', '-Xclang', '-disable-llvm-passes', '-fno-exceptions', '-fno-rtti',
               '-DARDUINOJSON_ENABLE_STD_STRING=0', '-DARDUINOJSON_ENABLE_STD_STREAM=0',
               '-DARDUINOJSON_ENABLE_STRING_VIEW=0', '-DARDUINOJSON_DEBUG=1', '-UNDEBUG',
               '-I', os.path.join(REPO, 'src'), '-I', os.path.join(ROOT, 'wrappers')]
OPT_FLAGS = ['-S', '-O1', '-vectorize-loops=false', '-vectorize-slp=false', '-unroll-threshold=0']

CBMC_BASE = ['--unwinding-assertions', '--drop-unused-functions', '--no-malloc-may-fail', '--trace', '--verbosity', '8',
             '--no-standard-checks', '--bounds-check', '--pointer-check', '--div-by-zero-check',
             '--pointer-primitive-check']

class Unit:
    """cuts: dict alias -> regex on the mangled name. Each cut function is kept out of line (noinline), its body is
    omitted from the translation and the harness supplies a contract stub named by the alias (a #define in <unit>.h
    maps the alias to the mangled name, so harnesses do not depend on the version-specific inline namespace)."""
    def __init__(s, name, src, defs=(), cuts=None, noinline=None, memhook=False, memhook_allow=None):
        s.name, s.src, s.defs, s.noinline = name, src, list(defs), noinline
        s.memhook, s.memhook_allow = memhook, memhook_allow   # store hook: assert that no store targets a mutable global (C20)
        s.cutmap = dict(cuts or {})
        s.cuts = '|'.join('(?:%s)' % x for x in s.cutmap.values()) if s.cutmap else None

class Ob:
    """one proof obligation = one CBMC query (+ its witness twin)"""
    def __init__(s, props, name, unit, harness, entry, defs=(), unwind=4, unwindset=(), backend='minisat',
                 tier='quick', cap=150, mem_gb=10, flags=(), witness=True, validate=8, desc='', bound='',
                 ptr_overflow=False, objbits=None, kf=None, hunwind=40, lunwind=(), fs='default'):
        s.props = [props] if isinstance(props, str) else list(props)
        s.name, s.unit, s.harness, s.entry = name, unit, harness, entry
        s.defs, s.unwind, s.unwindset, s.backend = list(defs), unwind, list(unwindset), backend
        s.tier, s.cap, s.mem_gb, s.flags, s.witness, s.validate = tier, cap, mem_gb, list(flags), witness, validate
        s.desc, s.bound, s.ptr_overflow, s.objbits, s.kf = desc, bound, ptr_overflow, objbits, kf
        s.fs = fs   # array field sensitivity: 'default' (<=64 elements), 'none', or an element count
        s.hunwind, s.lunwind = hunwind, list(lunwind)   # lunwind: [(regex on loop id, bound)] for library loops

def sh(cmd, **kw):
    return subprocess.run(cmd, stdout=subprocess.PIPE, stderr=subprocess.STDOUT, text=True, **kw)

# ------------------------------------------------------------------ build
def add_noinline(ll_text, regex):
    out, n = [], 0
    for l in ll_text.split('\n'):
        if l.startswith('define'):
            m = re.search(r'@("?[^"( ]+"?)\(', l)
            if m and re.search(regex, m.group(1)):
                l2 = re.sub(r'\) ((?:local_)?unnamed_addr )?(#\d+)', lambda mm: ') ' + (mm.group(1) or '') + 'noinline ' + mm.group(2), l, count=1)
                if l2 != l: n += 1
                l = l2
        out.append(l)
    return '\n'.join(out), n

LINKAGE_WORDS = r'\b(?:linkonce_odr|linkonce|weak_odr|weak|internal|private|available_externally|dso_local|hidden|protected|local_unnamed_addr|unnamed_addr)\b ?'

def cut_to_declare(ll_text, regex):
    """turn the definitions of the cut functions into declarations (for native linking with harness stubs)"""
    lines = ll_text.split('\n'); out = []; i = 0
    while i < len(lines):
        l = lines[i]
        if l.startswith('define'):
            m = re.search(r'@("?[^"( ]+"?)\(', l)
            if m and re.search(regex, m.group(1)):
                # find end of parameter list
                start = m.end() - 1; depth = 0; j = start
                while True:
                    c = l[j]
                    if c == '(': depth += 1
                    elif c == ')':
                        depth -= 1
                        if depth == 0: break
                    j += 1
                head = re.sub(LINKAGE_WORDS, '', l[len('define'):start])
                out.append('declare' + head + l[start:j + 1])
                while lines[i] != '}': i += 1
                i += 1; continue
        out.append(l); i += 1
    return '\n'.join(out)

class Build:
    def __init__(s, bdir, unit):
        s.dir, s.unit = bdir, unit
        s.lock = threading.Lock(); s.native = {}
    def p(s, ext): return os.path.join(s.dir, s.unit.name + ext)

def build_unit(bdir, unit, log):
    t0 = time.time()
    b = Build(bdir, unit)
    src = os.path.join(ROOT, unit.src)
    r = sh(['clang++-14'] + CLANG_FLAGS + ['-D' + d for d in unit.defs] + ['-S', '-emit-llvm', src, '-o', b.p('.O0.ll')])
    if r.returncode != 0: raise RuntimeError('clang failed for %s:\n%s' % (unit.name, r.stdout[-4000:]))
    txt = open(b.p('.O0.ll')).read()
    pats = [x for x in (unit.cuts, unit.noinline) if x]
    if pats:
        txt, n = add_noinline(txt, '|'.join('(?:%s)' % x for x in pats))
        if n == 0 and unit.cuts and not all(a.endswith('?') for a in unit.cutmap): raise RuntimeError('cut pattern matched no function in unit %s' % unit.name)
        open(b.p('.O0.ll'), 'w').write(txt)
    r = sh(['opt-14'] + OPT_FLAGS + [b.p('.O0.ll'), '-o', b.p('.ll')])
    if r.returncode != 0: raise RuntimeError('opt failed for %s:\n%s' % (unit.name, r.stdout[-4000:]))
    ll = open(b.p('.ll')).read()
    hname = unit.name + '.h'
    header, body, info = irtyped.translate_typed(ll, dict(omit=unit.cuts, ubchecks=True, hname=hname, memhook=unit.memhook, memhook_allow=unit.memhook_allow))
    if unit.cuts and not info['omitted'] and not all(a.endswith('?') for a in unit.cutmap): raise RuntimeError('cut functions vanished (inlined?) in unit %s' % unit.name)
    alias = []
    for al, rx in unit.cutmap.items():
        hit = [f for f in info['omitted'] if re.search(rx, f)]
        if al.endswith('?'):   # optional cut: the function may not exist in this tree (e.g. a different template instantiation)
            al = al[:-1]
            if not hit: continue
        if len(hit) != 1: raise RuntimeError('cut %s (%s) matched %d functions in unit %s: %s' % (al, rx, len(hit), unit.name, hit[:4]))
        alias.append('#define %s %s' % (al, hit[0]))
    if alias:
        k = header.rindex('#endif')
        header = header[:k] + '\n'.join(alias) + '\n' + header[k:]
    open(b.p('.h'), 'w').write(header); open(b.p('.c'), 'w').write(body)
    # weak fall-back definitions of the cut functions for native linking (a harness need not stub cuts it never reaches)
    open(b.p('.weak.c'), 'w').write('#include "%s"\n#include <stdio.h>\n#include <stdlib.h>\n' % hname + ''.join(
        '__attribute__((weak)) %s { printf("CUT-WITHOUT-STUB\\n"); exit(3); }\n' % pr for pr in info.get('omitted_protos', [])))
    b.info = info; b.ll_text = ll
    b.build_s = time.time() - t0
    log('built unit %s: %d functions translated, %d cut, %.1fs' % (unit.name, len(info['functions']), len(info['omitted']), b.build_s))
    return b

def native_objs(b, log):
    """gen.o (gcc build of the generated C) and real.o (native build of the real code)"""
    with b.lock:
        if b.native: return b.native
        u = b.unit
        r = sh(['gcc', '-O1', '-w', '-I', b.dir, '-I', ENG, '-c', b.p('.c'), '-o', b.p('.gen.o')])
        if r.returncode != 0: raise RuntimeError('gcc failed on generated C for %s:\n%s' % (u.name, r.stdout[-3000:]))
        if u.cuts:
            open(b.p('.cut.ll'), 'w').write(cut_to_declare(b.ll_text, u.cuts))
            r = sh(['clang-14', '-O1', '-w', '-c', b.p('.cut.ll'), '-o', b.p('.real.o')])
            san = []
        else:
            san = ['-fsanitize=address,undefined', '-fno-sanitize-recover=undefined']
            flags = [f for f in CLANG_FLAGS if f not in ('-Xclang', '-disable-llvm-passes')]
            r = sh(['clang++-14'] + flags + ['-g'] + san + ['-D' + d for d in u.defs] + ['-c', os.path.join(ROOT, u.src), '-o', b.p('.real.o')])
        if r.returncode != 0: raise RuntimeError('native build of real code failed for %s:\n%s' % (u.name, r.stdout[-3000:]))
        r = sh(['gcc', '-O1', '-w', '-I', b.dir, '-I', ENG, '-c', b.p('.weak.c'), '-o', b.p('.weak.o')])
        if r.returncode != 0: raise RuntimeError('gcc failed on weak stubs for %s:\n%s' % (u.name, r.stdout[-3000:]))
        b.native = dict(gen=b.p('.gen.o'), real=b.p('.real.o'), rt=b.p('.rt.o'), san=san, weak=b.p('.weak.o'))
        return b.native

def native_exes(b, ob, log):
    """two executables of the harness: linked with generated C / with the real code"""
    n = native_objs(b, log)
    tag = re.sub(r'[^A-Za-z0-9_]', '_', ob.name)
    ho = os.path.join(b.dir, tag + '.h.o')
    r = sh(['gcc', '-O1', '-w', '-DREPLAY', '-DVERIF_ENTRY=' + ob.entry, '-I', b.dir, '-I', ENG, '-I', os.path.join(ROOT, 'harness')] +
           ['-D' + d for d in ob.defs] + ['-c', os.path.join(ROOT, ob.harness), '-o', ho])
    if r.returncode != 0: raise RuntimeError('gcc failed on harness %s:\n%s' % (ob.harness, r.stdout[-3000:]))
    rto = os.path.join(b.dir, tag + '.rt.o')
    r = sh(['gcc', '-O1', '-DVERIF_ENTRY=' + ob.entry, '-c', os.path.join(ENG, 'vrt_native.c'), '-o', rto])
    eg, er = os.path.join(b.dir, tag + '.gen.exe'), os.path.join(b.dir, tag + '.real.exe')
    r = sh(['gcc', ho, n['gen'], n['weak'], rto, '-o', eg, '-lm'])
    if r.returncode != 0: raise RuntimeError('link gen failed %s:\n%s' % (ob.name, r.stdout[-3000:]))
    r = sh(['clang++-14'] + n['san'] + [ho, n['real'], n['weak'], rto, '-o', er, '-lm'])
    if r.returncode != 0: raise RuntimeError('link real failed %s:\n%s' % (ob.name, r.stdout[-3000:]))
    return eg, er

def run_native(exe, vin_file=None, seed=None, timeout=20):
    env = dict(os.environ)
    env['ASAN_OPTIONS'] = 'detect_leaks=0:abort_on_error=0:exitcode=99'
    env['UBSAN_OPTIONS'] = 'halt_on_error=1:exitcode=98'
    if vin_file: env['VIN_FILE'] = vin_file
    if seed is not None: env['VIN_SEED'] = str(seed)
    try:
        r = subprocess.run([exe], stdout=subprocess.PIPE, stderr=subprocess.PIPE, text=True, env=env, timeout=timeout, errors='replace')
        return r.returncode, r.stdout, r.stderr
    except subprocess.TimeoutExpired:
        return -9, '', 'timeout'

# ------------------------------------------------------------------ cbmc
BACKENDS = {'minisat': [], 'cadical': ['--sat-solver', 'cadical'], 'kissat': ['--external-sat-solver', 'kissat'],
            'z3': ['--z3'], 'cvc5': ['--cvc5', '--slice-formula'], 'cvc5int': ['--cvc5', '--slice-formula']}

def loop_bounds(b, ob):
    """harness loops get ob.hunwind, library loops matching ob.lunwind their own bound, the rest ob.unwind"""
    base = ['cbmc', b.p('.c'), os.path.join(ROOT, ob.harness), '-I', b.dir, '-I', ENG, '-I', os.path.join(ROOT, 'harness'),
            '--function', ob.entry, '--drop-unused-functions', '--show-loops'] + ['-D' + d for d in ob.defs]
    r = sh(base)
    out = []
    hpath = os.path.realpath(os.path.join(ROOT, ob.harness))
    for m in re.finditer(r'^Loop (\S+):\n\s+file (\S+) line', r.stdout, re.M):
        lid, f = m.group(1), m.group(2)
        if os.path.realpath(f) == hpath or f.endswith('vh.h') or f.endswith('jdh.h'): out.append('%s:%d' % (lid, ob.hunwind + 1))
        else:
            for rx, n in ob.lunwind:
                if re.search(rx, lid): out.append('%s:%d' % (lid, n)); break
    return out

def cbmc_cmd(b, ob, witness=False, backend=None, fixed=None):
    cmd = ['cbmc', b.p('.c'), os.path.join(ROOT, ob.harness), '-I', b.dir, '-I', ENG, '-I', os.path.join(ROOT, 'harness'),
           '--function', ob.entry, '--unwind', str(ob.unwind)]
    if not hasattr(ob, '_lb'): ob._lb = loop_bounds(b, ob)
    for u in list(ob.unwindset) + ob._lb: cmd += ['--unwindset', u]
    if witness:   # reachability only: no memory-safety instrumentation, the only properties are the WITNESS points
        cmd += [x for x in CBMC_BASE if x not in ('--bounds-check', '--pointer-check', '--div-by-zero-check', '--pointer-primitive-check')] + ['--stop-on-fail']
    else:
        cmd += CBMC_BASE
        if ob.ptr_overflow: cmd += ['--pointer-overflow-check']
    if ob.objbits: cmd += ['--object-bits', str(ob.objbits)]
    if fixed is not None: cmd += ['--max-field-sensitivity-array-size', '4096']   # concrete run: let constants flow through arrays
    elif ob.fs == 'none': cmd += ['--no-array-field-sensitivity']
    elif ob.fs != 'default': cmd += ['--max-field-sensitivity-array-size', str(ob.fs)]
    cmd += ['-D' + d for d in ob.defs]
    if witness: cmd += ['-DWITNESS']
    if fixed is not None: cmd += ['-DVIN_FIXED_LIST=' + ','.join('%dULL' % v for v in (fixed or [0]))]
    cmd += BACKENDS[backend or ob.backend]
    cmd += ob.flags
    return cmd

def limits(cpu_s, mem_gb):
    def f():
        resource.setrlimit(resource.RLIMIT_CPU, (int(cpu_s), int(cpu_s) + 5))
        resource.setrlimit(resource.RLIMIT_AS, (int(mem_gb * 2**30), int(mem_gb * 2**30)))
        os.setsid()
    return f

PROP_RE = re.compile(r'^\[([^\]]+)\] (?:line (\d+) )?(.*): (SUCCESS|FAILURE|UNKNOWN)$')

def run_cbmc(b, ob, witness=False, backend=None, cap=None, fixed=None):
    cmd = cbmc_cmd(b, ob, witness, backend, fixed)
    env = dict(os.environ)
    if (backend or ob.backend) == 'cvc5int': env['PATH'] = os.path.join(ENG, 'shim') + ':' + env['PATH']
    cap = cap or ob.cap
    t0 = time.time()
    ru0 = resource.getrusage(resource.RUSAGE_CHILDREN)
    try:
        p = subprocess.Popen(cmd, stdout=subprocess.PIPE, stderr=subprocess.STDOUT, text=True, env=env,
                             preexec_fn=limits(cap, ob.mem_gb), errors='replace')
        try:
            out, _ = p.communicate(timeout=cap * 4 + 60)
        except subprocess.TimeoutExpired:
            try: os.killpg(p.pid, 9)
            except Exception: pass
            out, _ = p.communicate(); out = (out or '') + '\nWALL-TIMEOUT'
        rc = p.returncode
    except Exception as e:
        out, rc = 'spawn error %s' % e, -1
    wall = time.time() - t0
    res = dict(name=ob.name, witness=witness, backend=backend or ob.backend, wall_s=round(wall, 2), rc=rc, cmd=' '.join(cmd))
    props = []
    for l in out.split('\n'):
        m = PROP_RE.match(l.strip())
        if m: props.append(dict(id=m.group(1), line=m.group(2), desc=m.group(3), status=m.group(4)))
    res['witness_hit'] = sorted(set(re.findall(r'^\s*(WITNESS [\w-]+)\s*$', out, re.M)))
    res['n_props'] = len(props)
    res['failed'] = [p_ for p_ in props if p_['status'] == 'FAILURE']
    m = re.search(r'size of program expression: (\d+) steps', out); res['steps'] = int(m.group(1)) if m else 0
    m = re.search(r'Generated (\d+) VCC\(s\), (\d+) remaining', out); res['vccs'], res['vccs_rem'] = (int(m.group(1)), int(m.group(2))) if m else (0, 0)
    m = re.findall(r'(\d+) variables, (\d+) clauses', out); res['sat_vars'], res['sat_clauses'] = (int(m[-1][0]), int(m[-1][1])) if m else (0, 0)
    res['solver_s'] = round(sum(float(x) for x in re.findall(r'Runtime (?:Solver|decision procedure): ([0-9.]+)s', out)), 3)
    if 'VERIFICATION SUCCESSFUL' in out: res['verdict'] = 'success'
    elif 'VERIFICATION FAILED' in out: res['verdict'] = 'failed'
    elif rc in (-9, -24, 137, 152) or 'WALL-TIMEOUT' in out or rc == -resource.RLIMIT_CPU: res['verdict'] = 'timeout'
    elif 'bad_alloc' in out or 'Out of memory' in out or 'out of memory' in out or rc == -6: res['verdict'] = 'oom'
    else: res['verdict'] = 'error'
    if res['verdict'] in ('error', 'oom', 'timeout'): res['tail'] = out[-1500:]
    if res['verdict'] == 'failed':
        res['vin'] = parse_vin(out)
        res['trace_tail'] = out[-6000:]
    return res

def parse_vin(out):
    """successive values drawn by vin_u64() as shown in the CBMC trace"""
    # with several failed properties CBMC prints one trace per property: use the first trace only
    parts = re.split(r'^Trace for ', out, flags=re.M)
    first = parts[1] if len(parts) > 1 else out
    return [int(m.group(1)) & (2**64 - 1) for m in re.finditer(r'^\s*vin_value__=(-?\d+)', first, re.M)]

# ------------------------------------------------------------------ one obligation, end to end
def process_ob(b, ob, log, seed, replay_dir, prop=None):
    """returns record dict with status in: discharged | violation | undecided | tool-error"""
    rec = dict(name=ob.name, props=ob.props, unit=ob.unit, harness=ob.harness, entry=ob.entry, defs=ob.defs, unwind=ob.unwind,
               backend=ob.backend, bound=ob.bound, desc=ob.desc, tier=ob.tier)
    wfut = None
    if ob.witness:   # the witness twin runs concurrently with the main query
        wres = {}
        def _w():
            # 1) look natively for an input that passes every assumption, then let CBMC run the harness on exactly
            #    that input (constant propagation: cheap) - this also cross-checks CBMC's model against the native run;
            # 2) otherwise decide reachability symbolically (bounded by a quarter of the obligation's budget).
            try:
                fixed = find_passing_input(b, ob, log, seed)
            except Exception as e:
                fixed = None
            if fixed is not None:
                w = run_cbmc(b, ob, witness=True, backend='minisat', fixed=fixed, cap=max(60, ob.cap // 4)); w['mode'] = 'concrete input found natively'
                if w['verdict'] == 'failed' and (w.get('witness_hit') or any('WITNESS' in f['desc'] for f in w.get('failed', []))):
                    w['vin'] = fixed; wres['w'] = w; return
            w = run_cbmc(b, ob, witness=True); w['mode'] = 'symbolic'
            wres['w'] = w
        wfut = threading.Thread(target=_w); wfut.start()
    main = run_cbmc(b, ob)
    if wfut: wfut.join()
    rec['main'] = {k: main[k] for k in ('verdict', 'wall_s', 'solver_s', 'steps', 'vccs', 'vccs_rem', 'sat_vars', 'sat_clauses', 'n_props', 'backend')}
    rec['cmd'] = main['cmd']
    if main['verdict'] == 'success':
        if ob.witness:
            w = wres['w']
            wf = [f for f in w.get('failed', []) if 'WITNESS' in f['desc']] or [dict(desc=x) for x in w.get('witness_hit', [])]
            rec['witness'] = dict(verdict=w['verdict'], wall_s=w['wall_s'], mode=w.get('mode'), reached=[f['desc'] for f in wf], vin=['%x' % v for v in w.get('vin', [])][:24])
            if w['verdict'] in ('timeout', 'oom'):
                rec['status'] = 'undecided'; rec['why'] = 'witness twin ' + w['verdict']; return rec
            if not wf:
                rec['status'] = 'tool-error'; rec['why'] = 'witness not reachable (vacuous harness): ' + w['verdict'] + ' ' + w.get('tail', '')[-400:]; return rec
        rec['status'] = 'discharged'
    elif main['verdict'] == 'failed':
        fails = main['failed']
        rec['failed_props'] = [f['desc'] for f in fails][:8]
        if all('unwinding assertion' in f['desc'] for f in fails):
            rec['status'] = 'tool-error'; rec['why'] = 'unwinding bound too small: ' + '; '.join(f['id'] for f in fails if 'unwinding' in f['desc'])[:300]; return rec
        # replay against natively compiled real code
        os.makedirs(replay_dir, exist_ok=True)
        rp = os.path.join(replay_dir, '%s-%s.json' % (prop or ob.props[0], re.sub(r'[^A-Za-z0-9_.-]', '_', ob.name)))
        vin = main.get('vin', [])
        rep = dict(property=ob.props, obligation=ob.name, unit=ob.unit, harness=ob.harness, entry=ob.entry, defs=ob.defs,
                   failed=[f['desc'] for f in fails][:8], inputs_hex=['%x' % v for v in vin], cbmc_cmd=main['cmd'])
        try:
            reproduced, detail = replay_inputs(b, ob, vin, log)
        except Exception as e:
            reproduced, detail = False, 'replay build failed: %s' % e
        rep['replay_result'] = detail
        json.dump(rep, open(rp, 'w'), indent=1)
        rec['replay'] = rp; rec['replay_detail'] = detail[:600]
        if reproduced: rec['status'] = 'violation'
        else:
            memsafety = all(re.search(r'pointer|bounds|dereference|overflow|LIBASSERT|ARDUINOJSON_ASSERT|store to a global object|unwinding assertion', f['desc']) for f in fails)
            rec['status'] = 'violation-unreplayed' if memsafety else 'tool-error'
            rec['why'] = 'counterexample did not reproduce natively: ' + detail[:300]
    else:
        rec['status'] = 'undecided'; rec['why'] = main['verdict'] + ': ' + main.get('tail', '')[-300:]
    # translation validation on this harness (native differential), only when the main query was decided
    return rec

def find_passing_input(b, ob, log, seed, tries=6000, budget_s=75):
    """pseudo-random native runs of the harness (real code); returns the drawn values of the first run that passes all
    assumptions and reaches the end of the harness, or None"""
    eg, er = native_exes(b, ob, log)
    dump = os.path.join(b.dir, re.sub(r'[^A-Za-z0-9_]', '_', ob.name) + '.dump')
    t0 = time.time()
    for k in range(tries):
        if time.time() - t0 > budget_s: break
        env = dict(os.environ); env['VIN_SEED'] = str((seed * 7919 + k * 104729 + 3) & 0x7fffffff); env['VIN_DUMP'] = dump
        env['ASAN_OPTIONS'] = 'detect_leaks=0'
        try: r = subprocess.run([er], stdout=subprocess.PIPE, stderr=subprocess.PIPE, text=True, env=env, timeout=20, errors='replace')
        except subprocess.TimeoutExpired: continue
        if r.returncode == 0 and 'DONE' in r.stdout and 'WITNESS-POINT' in r.stdout:   # a run that ends without passing a witness point proves nothing
            return [int(l, 16) for l in open(dump) if l.strip()]
    return None

def write_vin(path, vin):
    with open(path, 'w') as f:
        for v in vin: f.write('%x\n' % v)

def replay_inputs(b, ob, vin, log):
    eg, er = native_exes(b, ob, log)
    vf = os.path.join(b.dir, re.sub(r'[^A-Za-z0-9_]', '_', ob.name) + '.vin')
    write_vin(vf, vin)
    rc, out, err = run_native(er, vin_file=vf)
    if rc == 1 and 'ASSERT-FAILED' in out: return True, 'real code: ' + [l for l in out.split('\n') if 'ASSERT-FAILED' in l][0]
    if rc == 1 and 'LIBASSERT' in out: return True, 'real code: ARDUINOJSON_ASSERT fired'
    if rc in (98, 99) or 'AddressSanitizer' in err or 'runtime error' in err:
        return True, 'real code: sanitizer report: ' + (re.findall(r'(ERROR: AddressSanitizer[^\n]*|[^\n]*runtime error[^\n]*)', err) or [''])[0][:300]
    if rc < 0 and rc != -9: return True, 'real code: crashed with signal %d' % -rc
    first = 'rc=%d out=%s' % (rc, out[-200:].replace('\n', ' | '))
    if not b.unit.cuts:
        # second attempt under MemorySanitizer: a counterexample that depends on an uninitialised read does not show under ASan
        try:
            ok, detail = replay_msan(b, ob, vf)
            if ok: return True, detail
        except Exception as e:
            first += ' (msan replay failed: %s)' % str(e)[-200:]
    return False, first

def replay_msan(b, ob, vf):
    tag = re.sub(r'[^A-Za-z0-9_]', '_', ob.name)
    u = b.unit; ms = ['-fsanitize=memory', '-fno-omit-frame-pointer', '-g', '-O1']
    flags = [f for f in CLANG_FLAGS if f not in ('-Xclang', '-disable-llvm-passes', '-O1')]
    ro = os.path.join(b.dir, tag + '.msan.real.o'); ho = os.path.join(b.dir, tag + '.msan.h.o'); rt = os.path.join(b.dir, tag + '.msan.rt.o'); ex = os.path.join(b.dir, tag + '.msan.exe')
    for cmd in (['clang++-14'] + flags + ms + ['-D' + d for d in u.defs] + ['-c', os.path.join(ROOT, u.src), '-o', ro],
                ['clang-14', '-w', '-DREPLAY', '-DVERIF_ENTRY=' + ob.entry, '-I', b.dir, '-I', ENG, '-I', os.path.join(ROOT, 'harness')] + ms + ['-D' + d for d in ob.defs] + ['-c', os.path.join(ROOT, ob.harness), '-o', ho],
                ['clang-14', '-w', '-DVERIF_ENTRY=' + ob.entry] + ms + ['-c', os.path.join(ENG, 'vrt_native.c'), '-o', rt],
                ['clang++-14'] + ms + [ho, ro, rt, '-o', ex, '-lm']):
        r = sh(cmd)
        if r.returncode != 0: raise RuntimeError(r.stdout[-400:])
    env = dict(os.environ); env['VIN_FILE'] = vf; env['MSAN_OPTIONS'] = 'exitcode=97'
    r = subprocess.run([ex], stdout=subprocess.PIPE, stderr=subprocess.PIPE, text=True, env=env, timeout=30, errors='replace')
    if r.returncode == 97 or 'MemorySanitizer' in r.stderr:
        return True, 'real code under MemorySanitizer: ' + (re.findall(r'(WARNING: MemorySanitizer[^\n]*)', r.stderr) or [''])[0] + ' ' + ' '.join(re.findall(r'#\d+ \S+ in ([^\n]*)', r.stderr)[:2])[:300]
    if r.returncode == 1 and 'ASSERT-FAILED' in r.stdout: return True, 'real code (msan build): ' + [l for l in r.stdout.split('\n') if 'ASSERT-FAILED' in l][0]
    return False, 'msan rc=%d' % r.returncode

def validate_translation(b, ob, log, seed, n):
    """native differential run of the harness: generated C vs real code, n pseudo-random input streams"""
    eg, er = native_exes(b, ob, log)
    agree = reached = 0; diffs = []
    for k in range(n):
        sd = (seed * 1000003 + k * 7919 + 1) & 0x7fffffff
        r1 = run_native(eg, seed=sd); r2 = run_native(er, seed=sd)
        if r1[0] == r2[0] and r1[1] == r2[1]:
            agree += 1
            if r1[0] in (0, 1): reached += 1
        else: diffs.append(dict(seed=sd, gen=(r1[0], r1[1][-300:]), real=(r2[0], r2[1][-300:], r2[2][-300:])))
    return dict(runs=n, agree=agree, past_assumptions=reached, diffs=diffs[:3])
