#ifndef VH_H
#define VH_H
/* harness-side helpers. Three modes:
 *   CBMC            : inputs are nondeterministic, VASSERT is a proof obligation
 *   native (REPLAY) : inputs come from the value list in file $VIN_FILE (one hex u64 per line);
 *                     when the list is exhausted a xorshift stream seeded by its last entry continues.
 *                     VASSERT failure prints "ASSERT-FAILED <msg>" and exits 1; VASSUME failure exits 77;
 *                     VOBS prints an observation (used by the translation-validation diff). */
#include <stdint.h>
#include <stddef.h>
#include <string.h>
#define VIN_MAX 256
#ifdef __CPROVER__
uint64_t nondet_vin_u64(void);
/* every symbolic input is drawn here; the counterexample trace shows the successive values of vin_value__
   (no log array: a 2 KB global array was measured to multiply the formula size by 10) */
#ifdef VIN_FIXED_LIST   /* concrete witness run: the inputs of a native run that passed every assumption */
static const uint64_t VIN_FIXED[] = { VIN_FIXED_LIST, 0 }; static unsigned VIN_I;
static inline uint64_t vin_u64(void){ return VIN_FIXED[VIN_I++]; }
static inline uint8_t vin_u8(void){ return (uint8_t)vin_u64(); }
static inline uint16_t vin_u16(void){ return (uint16_t)vin_u64(); }
static inline uint32_t vin_u32(void){ return (uint32_t)vin_u64(); }
#else
static inline uint64_t vin_u64(void){ uint64_t vin_value__ = nondet_vin_u64(); return vin_value__; }
/* exact-width draws: measured 10x smaller formulas than truncating a 64-bit nondet value */
uint8_t nondet_vin_u8(void); uint16_t nondet_vin_u16(void); uint32_t nondet_vin_u32(void);
static inline uint8_t vin_u8(void){ uint8_t vin_value__ = nondet_vin_u8(); return vin_value__; }
static inline uint16_t vin_u16(void){ uint16_t vin_value__ = nondet_vin_u16(); return vin_value__; }
static inline uint32_t vin_u32(void){ uint32_t vin_value__ = nondet_vin_u32(); return vin_value__; }
#endif
#ifdef WITNESS   /* the witness twin only decides reachability of the VWITNESS points */
#define VASSERT(c, msg) ((void)0)
#else
#define VASSERT(c, msg) __CPROVER_assert((c), msg)
#endif
#define VASSUME(c) __CPROVER_assume(c)
#define VOBS(x) ((void)0)
#define VOBSB(p,n) ((void)0)
#ifdef WITNESS
#define VWITNESS(tag) __CPROVER_assert(0, "WITNESS " tag)
#else
#define VWITNESS(tag) ((void)0)
#endif
#else
#include <stdio.h>
#include <stdlib.h>
uint64_t vin_u64(void);
#define VASSERT(c, msg) do { if (!(c)) { printf("ASSERT-FAILED %s (%s:%d)\n", msg, __FILE__, __LINE__); fflush(stdout); exit(1); } } while (0)
#define VASSUME(c) do { if (!(c)) { printf("ASSUME-FALSE\n"); fflush(stdout); exit(77); } } while (0)
#define VOBS(x) printf("OBS %s=%llx\n", #x, (unsigned long long)(x))
#define VOBSB(p,n) do { printf("OBS %s=", #p); for (size_t i__=0;i__<(size_t)(n);i__++) printf("%02x", ((const unsigned char*)(p))[i__]); printf("\n"); } while (0)
#define VWITNESS(tag) printf("WITNESS-POINT %s\n", tag)   /* the native witness search keeps only runs that pass one */
#define __CPROVER_assume(c) VASSUME(c)
#define __CPROVER_assert(c, m) VASSERT(c, m)
#endif
#ifndef __CPROVER__
static inline uint8_t vin_u8(void){ return (uint8_t)vin_u64(); }
static inline uint16_t vin_u16(void){ return (uint16_t)vin_u64(); }
static inline uint32_t vin_u32(void){ return (uint32_t)vin_u64(); }
#endif
static inline double vin_f64(void){ uint64_t b = vin_u64(); double d; memcpy(&d, &b, 8); return d; }
static inline float vin_f32(void){ uint32_t b = vin_u32(); float f; memcpy(&f, &b, 4); return f; }
static inline uint64_t vbits64(double d){ uint64_t b; memcpy(&b, &d, 8); return b; }
static inline uint32_t vbits32(float f){ uint32_t b; memcpy(&b, &f, 4); return b; }
static inline float vin_unbits32(uint32_t b){ float f; memcpy(&f, &b, 4); return f; }
#endif
