/* native runtime: input stream for replay / translation validation, and main() */
#include <stdio.h>
#include <stdlib.h>
#include <stdint.h>
#include <string.h>
static uint64_t vals[4096]; static unsigned nvals, pos; static uint64_t rng = 0x9E3779B97F4A7C15ULL; static int special;
static FILE* dumpf;
static uint64_t vin_u64_(void);
uint64_t vin_u64(void){ uint64_t v = vin_u64_(); if (dumpf) { fprintf(dumpf, "%llx\n", (unsigned long long)v); fflush(dumpf); } return v; }
static uint64_t vin_u64_(void){
  if (pos < nvals) { rng ^= vals[pos]; return vals[pos++]; }
  pos++;
  rng ^= rng << 13; rng ^= rng >> 7; rng ^= rng << 17;
  uint64_t r = rng;
  if (special) {  /* bias toward small / boundary values so assumptions are met more often */
    switch ((r >> 60) & 7) { case 0: r &= 0xff; break; case 1: r &= 0x7; break; case 2: r = (r & 0xff) | 0x30; break; case 3: r &= 0xffff; break; default: break; }
  }
  return r;
}
void VERIF_ENTRY(void);
int main(int argc, char** argv){
  const char* f = getenv("VIN_FILE");
  if (getenv("VIN_SEED")) { rng ^= strtoull(getenv("VIN_SEED"), 0, 0) * 0xD1342543DE82EF95ULL + 1; special = 1; }
  if (f) { FILE* fp = fopen(f, "r"); char line[128]; while (fp && fgets(line, sizeof line, fp) && nvals < 4096) { if (line[0]=='#' || line[0]=='\n') continue; vals[nvals++] = strtoull(line, 0, 16); } if (fp) fclose(fp); }
  if (getenv("VIN_DUMP")) dumpf = fopen(getenv("VIN_DUMP"), "w");
  VERIF_ENTRY();
  printf("DONE\n");
  return 0;
}
