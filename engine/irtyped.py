#!/usr/bin/env python3
"""Typed variant of the prototype IR->C translator: LLVM struct types become C
structs, pointers keep their pointee type, GEPs become member accesses, so that
CBMC's symex stays field-sensitive and can constant-propagate pointers."""
import re, sys, struct
from irparse import *

def san(n):
    if n.startswith('%'): n = n[1:]
    if n.startswith('"'): n = n[1:-1]
    n = re.sub(r'ArduinoJson::V[0-9A-Z]+::', 'AJ::', n)   # drop the configuration-dependent inline namespace
    n = re.sub(r'^(class|struct|union)\.', '', n)
    return re.sub(r'[^A-Za-z0-9_]', lambda m: '_', n)

class EmitT:
    def __init__(s, m, opts):
        s.m, s.o = m, opts
        s.lit = {}      # structural key -> (cname, type) for literal structs / arrays
        s.tydefs = []   # ordered C definitions
        s.defined = set()
        s.fnptr_n = 0
        s.in_ginit = False

    # ---- C type names
    def key(s, t):
        if isinstance(t, IntT): return 'i%d' % t.bits
        if isinstance(t, FloatT): return t.k
        if isinstance(t, PtrT): return 'p'  # layout-equivalent
        if isinstance(t, ArrT): return 'a%d_%s' % (t.n, s.key(t.el))
        if isinstance(t, StructT):
            if t.name: return 'S_' + san(t.name)
            return ('P' if t.packed else 'L') + '_' + '_'.join(s.key(e) for e in t.els) + '_E'
        if isinstance(t, FuncT): return 'fn'
        if isinstance(t, OpaqueT): return 'opq'
        if isinstance(t, VoidT): return 'void'
        raise TypeError(t)
    def cty(s, t):
        if isinstance(t, IntT): return t.c()
        if isinstance(t, FloatT): return t.k
        if isinstance(t, VoidT): return 'void'
        if isinstance(t, PtrT):
            if isinstance(t.to, FuncT): return 'verif_fn_t'
            if isinstance(t.to, VoidT): return 'uint8_t*'
            return s.cty(t.to) + '*'
        if isinstance(t, StructT) and t.name:
            return 'struct S_' + san(t.name)
        if isinstance(t, (StructT, ArrT)):
            k = s.ptrkey(t)
            if k not in s.lit: s.lit[k] = t
            return 'struct ' + k
        if isinstance(t, FuncT): return 'verif_fn_body_t'
        if isinstance(t, OpaqueT): return 'uint8_t'
        raise TypeError(t)
    def ptrkey(s, t):
        # literal aggregates are distinguished also by pointee types of their pointer members
        if isinstance(t, ArrT): return 'A%d_%s' % (t.n, s.elkey(t.el))
        return ('P' if t.packed else 'L') + '_' + '_'.join(s.elkey(e) for e in t.els) + '_E'
    def elkey(s, t):
        if isinstance(t, PtrT):
            return 'p' + re.sub(r'[^A-Za-z0-9_]', '_', s.cty(t)).replace('struct_', '')
        if isinstance(t, (ArrT,)) or (isinstance(t, StructT) and not t.name): return s.ptrkey(t)
        return s.key(t)

    def struct_def(s, cname, t):
        if isinstance(t, ArrT):
            return '%s { %s e[%d]; };' % (cname, s.cty(t.el), max(t.n, 1))
        fields = ' '.join('%s f%d;' % (s.cty(e), i) for i, e in enumerate(t.els)) or 'uint8_t dummy;'
        return '%s { %s }%s;' % (cname, fields, ' __attribute__((packed))' if t.packed else '')

    def all_typedefs(s):
        # iterate to fixpoint because cty() may register new literal types
        named = {('struct S_' + san(n)): t for n, t in s.m.types.items()}
        out_fwd, out_def, done = [], [], set()
        def deps(t):
            els = [t.el] if isinstance(t, ArrT) else t.els
            for e in els:
                if isinstance(e, (StructT, ArrT)): yield e
        def emit(t):
            cn = s.cty(t)
            if cn in done: return
            done.add(cn)
            for d in deps(t): emit(d)
            out_def.append(s.struct_def(cn, t))
        n = -1
        while n != len(s.lit) + len(named):
            n = len(s.lit) + len(named)
            for cn, t in list(named.items()): emit(t)
            for k, t in list(s.lit.items()): emit(t)
        for cn in done: out_fwd.append(cn + ';')
        return out_fwd + out_def

    # ---- operands
    def val(s, v):
        t = v.ty
        if v.kind == 'local': return lname(v.val)
        if v.kind == 'global':
            n = v.val
            if n in s.m.funcs or n in s.m.decls: return '((verif_fn_t)&%s)' % gname(n)
            return '(&%s)' % gname(n)
        if v.kind == 'int':
            if isinstance(t, PtrT): return '((%s)%dUL)' % (s.cty(t), v.val)
            bits = t.bits; x = v.val & ((1 << bits) - 1)
            if bits > 64:
                return '((((unsigned __int128)%dULL)<<64)|%dULL)' % (x >> 64, x & (2**64-1))
            return '((%s)%dU%s)' % (t.c(), x, 'LL' if bits > 32 else '')
        if v.kind == 'float': return Emit.fconst(s, t, v.val)
        if v.kind == 'null': return '((%s)0)' % s.cty(t)
        if v.kind == 'undef' and s.o.get('ubchecks') and isinstance(t, IntT) and not s.in_ginit:
            # LLVM undef (e.g. a member read before it was ever written): an arbitrary value, not zero
            return '((%s)verif_poison_u64())' % t.c()
        if v.kind in ('undef', 'zero'):
            if isinstance(t, (StructT, ArrT)): return '((%s){0})' % s.cty(t)
            if isinstance(t, FloatT): return '((%s)0.0)' % t.k
            return '((%s)0)' % s.cty(t)
        if v.kind == 'agg':
            if isinstance(t, ArrT): return '((%s){{%s}})' % (s.cty(t), ', '.join(s.val(e) for e in v.val))
            return '((%s){%s})' % (s.cty(t), ', '.join(s.val(e) for e in v.val))
        if v.kind == 'cexpr': return s.cexpr(v)
        raise TypeError(v.kind)

    def cexpr(s, v):
        e = v.val
        if e[0] == 'gep':
            _, bt, ptr, idx = e
            ex, rt = s.gep(bt, s.val(ptr), idx)
            return '((%s)%s)' % (s.cty(v.ty), ex) if False else ex
        if e[0] == 'bitcast': return '((%s)%s)' % (s.cty(v.ty), s.val(e[1]))
        if e[0] == 'ptrtoint': return '((%s)(uintptr_t)%s)' % (v.ty.c(), s.val(e[1]))
        if e[0] == 'inttoptr': return '((%s)(uintptr_t)%s)' % (s.cty(v.ty), s.val(e[1]))
        if e[0] in ('add', 'sub', 'and', 'or'):
            return '((%s)(%s %s %s))' % (v.ty.c(), s.val(e[1]), {'add':'+','sub':'-','and':'&','or':'|'}[e[0]], s.val(e[2]))
        if e[0] in ('trunc', 'zext'): return '((%s)%s)' % (v.ty.c(), s.val(e[1]))
        raise TypeError(e[0])

    def cexpr_type(s, v):
        """static type of a constant expression / operand (LLVM type)"""
        if v.kind == 'cexpr' and v.val[0] == 'gep':
            _, bt, ptr, idx = v.val
            t = bt
            for n, i in enumerate(idx):
                if n == 0: continue
                t = t.els[i.val] if isinstance(t, StructT) else t.el
            return PtrT(t)
        return v.ty

    def gep(s, bt, base, idx):
        """returns (C expression of typed pointer, LLVM result pointer type)"""
        def sidx(i):
            if i.kind == 'int':
                x = i.val
                if x >= 1 << (i.ty.bits - 1): x -= 1 << i.ty.bits
                return str(x)
            return '(int64_t)(%s)%s' % (i.ty.sc(), s.val(i))
        t = bt
        ex = '%s[%s]' % (base, sidx(idx[0]))
        for i in idx[1:]:
            if isinstance(t, StructT):
                ex += '.f%d' % i.val; t = t.els[i.val]
            elif isinstance(t, ArrT):
                ex += '.e[%s]' % sidx(i); t = t.el
            else: raise TypeError('gep into %r' % t)
        return '(&%s)' % ex, PtrT(t)

    # ---- globals
    def ginit(s, v, t):
        s.in_ginit = True
        try: return s.ginit_(v, t)
        finally: s.in_ginit = False
    def ginit_(s, v, t):
        if v is None or v.kind in ('zero', 'undef'): return '{0}' if isinstance(t, (StructT, ArrT)) else '0'
        if v.kind == 'str': return '{{' + ','.join(str(b) for b in v.val) + '}}'
        if v.kind == 'agg':
            els = t.els if isinstance(t, StructT) else [t.el] * t.n
            inner = ', '.join(s.ginit_(e, et) for e, et in zip(v.val, els))
            return '{{' + inner + '}}' if isinstance(t, ArrT) else '{' + inner + '}'
        if isinstance(t, FloatT) and v.kind == 'float': return Emit.fconst(s, t, v.val)
        return s.val(v)

    def proto(s, name, ret, args, sx=(set(), False)):
        # parameters / results carrying `signext` get the signed C type so that native callers follow the real ABI
        def pty(k, t): return t.sc() if k in sx[0] and isinstance(t, IntT) and t.bits in (8, 16, 32) else s.cty(t)
        a = ', '.join('%s %s%s' % (pty(k, t), lname(an), '__sx' if k in sx[0] else '') for k, (t, an) in enumerate(args)) or 'void'
        rt = ret.sc() if sx[1] and isinstance(ret, IntT) and ret.bits in (8, 16, 32) else s.cty(ret)
        return '%s %s(%s)' % (rt, gname(name), a)

    def func(s, name, f):
        o = [s.proto(name, f['ret'], f['args'], f.get('sx', (set(), False))) + ' {']
        for k in sorted(f.get('sx', (set(), False))[0]):
            t, an = f['args'][k]; o.append('  %s %s = (%s)%s__sx;' % (s.cty(t), lname(an), s.cty(t), lname(an)))
        decls = {}; phis = []
        for b in f['blocks']:
            for i in b['insts']:
                if i.res and i.op != 'alloca' and not isinstance(i.ty, VoidT): decls[i.res] = i
                if i.op == 'phi': phis.append(i)
        # result types for geps need computing
        s.ltypes = {an: t for t, an in f['args']}
        for b in f['blocks']:
            for i in b['insts']:
                if i.res is None: continue
                if i.op == 'gep':
                    t = i.bt
                    for n, ix in enumerate(i.idx):
                        if n == 0: continue
                        t = t.els[ix.val] if isinstance(t, StructT) else t.el
                    i.ty = PtrT(t)
                s.ltypes[i.res] = i.ty
        for r, i in decls.items(): o.append('  %s %s;' % (s.cty(i.ty), lname(r)))
        for i in phis: o.append('  %s %s__in;' % (s.cty(i.ty), lname(i.res)))
        body = []
        for b in f['blocks']:
            body.append(' L_%s: ;' % cname(b['label']))
            for i in b['insts']:
                if i.op == 'phi': body.append('  %s = %s__in;' % (lname(i.res), lname(i.res)))
            for i in b['insts']:
                if i.op != 'phi': s.inst(i, b, f, body, o)
        return '\n'.join(o + body + ['}'])

    def edge(s, frm, to, f):
        out = []
        tb = next(b for b in f['blocks'] if b['label'] == to)
        for i in tb['insts']:
            if i.op != 'phi': break
            for v, lab in i.inc:
                if lab == frm['label']:
                    out.append('%s__in = %s;' % (lname(i.res), s.val(v))); break
        return ' '.join(out) + ' goto L_%s;' % cname(to)

    def inst(s, i, b, f, o, head):
        R = lname(i.res) if i.res else None
        if i.op in ('bin', 'fneg', 'fcmp', 'select', 'freeze', 'br', 'condbr', 'switch', 'ret', 'unreachable', 'extractvalue', 'insertvalue'):
            if i.op == 'extractvalue' or i.op == 'insertvalue':
                t = i.a.ty; path = ''
                for k in i.idx:
                    if isinstance(t, StructT): path += '.f%d' % k; t = t.els[k]
                    else: path += '.e[%d]' % k; t = t.el
                if i.op == 'extractvalue': o.append('  %s = %s%s;' % (R, s.val(i.a), path))
                else: o.append('  %s = %s; %s%s = %s;' % (R, s.val(i.a), R, path, s.val(i.v)))
                return
            return Emit.inst(s, i, b, f, o, head)   # shared scalar logic (uses s.val / s.edge)
        if i.op == 'icmp':
            a, bb = s.val(i.a), s.val(i.b); t = i.a.ty; pr = i.pred
            sym = {'eq':'==','ne':'!=','ugt':'>','uge':'>=','ult':'<','ule':'<=','sgt':'>','sge':'>=','slt':'<','sle':'<='}[pr]
            if isinstance(t, PtrT):
                if pr in ('eq', 'ne'): o.append('  %s = ((uint8_t*)%s %s (uint8_t*)%s);' % (R, a, sym, bb))
                else: o.append('  %s = ((uint8_t*)%s %s (uint8_t*)%s);' % (R, a, sym, bb))
            else: return Emit.inst(s, i, b, f, o, head)
        elif i.op == 'cast':
            a = s.val(i.a); st, dt, op = i.a.ty, i.ty, i.cop
            if op == 'bitcast' and isinstance(st, PtrT) and isinstance(dt, PtrT):
                o.append('  %s = (%s)%s;' % (R, s.cty(dt), a))
            elif op == 'inttoptr': o.append('  %s = (%s)(uintptr_t)%s;' % (R, s.cty(dt), a))
            elif op == 'bitcast':
                o.append('  { %s tmp__ = %s; memcpy(&%s, &tmp__, %d); }' % (s.cty(st), a, R, dt.size()))
            else: return Emit.inst(s, i, b, f, o, head)
        elif i.op == 'alloca':
            assert i.n is None or i.n.kind == 'int'
            n = i.n.val if i.n else 1
            if n == 1: head.append('  %s %s__mem; %s* %s = &%s__mem;' % (s.cty(i.aty), R, s.cty(i.aty), R, R))
            else: head.append('  %s %s__mem[%d]; %s* %s = %s__mem;' % (s.cty(i.aty), R, n, s.cty(i.aty), R, R))
        elif i.op == 'load':
            t = i.ty
            if isinstance(t, IntT) and t.bits == 1: o.append('  %s = *%s & 1;' % (R, s.val(i.a)))
            else: o.append('  %s = *%s;' % (R, s.val(i.a)))
        elif i.op == 'store':
            if s.o.get('memhook'): o.append('  VERIF_STORE(%s, %d);' % (s.val(i.a), i.v.ty.size()))
            o.append('  *%s = %s;' % (s.val(i.a), s.val(i.v)))
        elif i.op == 'gep':
            ex, _ = s.gep(i.bt, s.val(i.a), i.idx)
            o.append('  %s = %s;' % (R, ex))
        elif i.op == 'call': s.call(i, R, o)
        else: raise TypeError(i.op)

    def call(s, i, R, o):
        args = [s.val(a) for a in i.args]
        asg = '' if isinstance(i.ty, VoidT) or not R else R + ' = '
        if i.callee.kind == 'global':
            n = i.callee.val[1:]
            if n.startswith('llvm.lifetime') or n.startswith('llvm.dbg') or n.startswith('llvm.experimental.noalias'): return
            if n.startswith('llvm.assume'): o.append('  VERIF_ASSUME(%s);' % args[0]); return
            if s.o.get('memhook') and re.match(r'llvm\.mem(cpy|move|set)', n): o.append('  VERIF_STORE(%s, 1);' % args[0])
            if n.startswith('llvm.memcpy') : o.append('  memcpy(%s, %s, %s);' % tuple(args[:3])); return
            if n.startswith('llvm.memmove'): o.append('  memmove(%s, %s, %s);' % tuple(args[:3])); return
            if n.startswith('llvm.memset'): o.append('  memset(%s, %s, %s);' % tuple(args[:3])); return
            if n.startswith('llvm.'): return Emit.call(s, i, R, o)
            if n == '__assert_fail': o.append('  VERIF_LIBASSERT();'); return
            # function-local statics: single-threaded model of the guard protocol
            if n == '__cxa_guard_acquire': o.append('  %s(*(uint8_t*)%s == 0);' % (asg, args[0])); return
            if n == '__cxa_guard_release': o.append('  *(uint8_t*)%s = 1;' % args[0]); return
            if n == '__cxa_guard_abort': return
            if n in LIBCT:
                o.append('  %s%s;' % (asg, LIBCT[n](args, s.cty(i.ty)))); return
            if i.callee.val in s.m.funcs or i.callee.val in s.m.decls:
                o.append('  %s%s(%s);' % (asg, gname(i.callee.val), ', '.join(args))); return
            raise TypeError('unknown callee ' + n)
        fpt = '%s (*)(%s)' % (s.cty(i.ty), ', '.join(s.cty(a.ty) for a in i.args) or 'void')
        o.append('  %s((%s)%s)(%s);' % (asg, fpt, s.val(i.callee), ', '.join(args)))

    fconst = Emit.fconst

LIBCT = {
    'malloc': lambda a, rt: '(%s)malloc(%s)' % (rt, a[0]),
    'realloc': lambda a, rt: '(%s)realloc(%s, %s)' % (rt, a[0], a[1]),
    'free': lambda a, rt: 'free(%s)' % a[0],
    'strlen': lambda a, rt: '(%s)strlen((const char*)%s)' % (rt, a[0]),
    'strcmp': lambda a, rt: '(%s)strcmp((const char*)%s, (const char*)%s)' % (rt, a[0], a[1]),
    'memcmp': lambda a, rt: '(%s)memcmp(%s, %s, %s)' % (rt, a[0], a[1], a[2]),
    'bcmp': lambda a, rt: '(%s)memcmp(%s, %s, %s)' % (rt, a[0], a[1], a[2]),
    'abort': lambda a, rt: 'abort()',
}

def translate_typed(text, opts):
    m = parse_module(text)
    e = EmitT(m, opts)
    omit = opts.get('omit')
    protos, bodies, gdefs, ginits = [], [], [], []
    for name, d in m.decls.items():
        n = name[1:]
        if n.startswith('llvm.') or n in LIBCT or n in ('memcpy', 'memset', 'memmove', '__assert_fail', '__cxa_guard_acquire', '__cxa_guard_release', '__cxa_guard_abort'): continue
        protos.append(e.proto(name, d['ret'], [(t, '%a' + str(k)) for k, (t, _) in enumerate(d['args'])], d.get('sx', (set(), False))) + ';')
    for name, f in m.funcs.items(): protos.append(e.proto(name, f['ret'], f['args'], f.get('sx', (set(), False))) + ';')
    for name, g in m.globals.items():
        const = 'const ' if g['const'] and g['init'] is not None else ''
        gdefs.append('extern %s%s %s;' % (const, e.cty(g['ty']), gname(name)))
        if g['init'] is not None:
            ginits.append('%s%s %s = %s;' % (const, e.cty(g['ty']), gname(name), e.ginit(g['init'], g['ty'])))
    for name, f in m.funcs.items():
        if omit and re.search(omit, name): continue
        bodies.append(e.func(name, f))
    hdr = ['#include <stdint.h>', '#include <stddef.h>', '#include <string.h>', '#include <stdlib.h>',
           'typedef void (*verif_fn_t)(void); typedef uint8_t verif_fn_body_t;', '#include "verif_rt.h"']
    header = '#ifndef VERIF_UNIT_H\n#define VERIF_UNIT_H\n' + '\n'.join(hdr) + '\n' + '\n'.join(e.all_typedefs()) + '\n' + '\n'.join(protos) + '\n' + '\n'.join(gdefs) + '\n#endif\n'
    hook = ''
    if opts.get('memhook'):
        allow = opts.get('memhook_allow') or r'^$'
        watched = [n for n, g in m.globals.items() if not g['const'] and g['init'] is not None and not re.search(allow, n[1:]) and not n.startswith('@llvm.')]
        conds = ' && '.join('!__CPROVER_same_object(p, &%s)' % gname(n) for n in watched) or '1'
        hook = ('#ifdef __CPROVER__\nstatic inline void verif_store_hook(const void* p) { __CPROVER_assert(%s, "store to a global object of the library (mutable static state)"); }\n'
                '#define VERIF_STORE(p, n) verif_store_hook((const void*)(p))\n#else\n#define VERIF_STORE(p, n) ((void)0)\n#endif\n') % conds
    body = '#include "%s"\n' % opts.get('hname', 'unit.h') + hook + '\n'.join(ginits) + '\n\n' + '\n\n'.join(bodies) + '\n'
    info = dict(functions=[n[1:] for n in m.funcs if not (omit and re.search(omit, n))],
                omitted=[n[1:] for n in m.funcs if omit and re.search(omit, n)],
                omitted_protos=[e.proto(n, f['ret'], f['args'], f.get('sx', (set(), False))) for n, f in m.funcs.items() if omit and re.search(omit, n)],
                watched_globals=([n[1:] for n, g in m.globals.items() if not g['const'] and g['init'] is not None and not re.search(opts.get('memhook_allow') or r'^$', n[1:]) and not n.startswith('@llvm.')] if opts.get('memhook') else []),
                globals={n[1:]: dict(const=bool(g['const']), has_init=g['init'] is not None, ty=repr(g['ty'])) for n, g in m.globals.items()},
                decls=[n[1:] for n in m.decls])
    return header, body, info

