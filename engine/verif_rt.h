#ifndef VERIF_RT_H
#define VERIF_RT_H
/* runtime for the IR->C translation: CBMC mode and native (gcc) mode */
#include <stdint.h>
#ifdef __CPROVER__
uint64_t nondet_poison_u64(void);
static inline uint64_t verif_poison_u64(void){ return nondet_poison_u64(); }
#define VERIF_ASSUME(c) __CPROVER_assume(c)
#define VERIF_UNREACHABLE() __CPROVER_assert(0, "llvm unreachable reached")
#define VERIF_LIBASSERT() __CPROVER_assert(0, "ARDUINOJSON_ASSERT failed in library code")
#define VERIF_SHIFT(n,bits) __CPROVER_assert((n) < (bits), "shift too large")
#else
#include <stdlib.h>
#include <stdio.h>
static inline uint64_t verif_poison_u64(void){ return 0xDEADBEEFCAFEF00DULL; }
#define VERIF_ASSUME(c) ((void)0)
#define VERIF_UNREACHABLE() abort()
#define VERIF_LIBASSERT() do { printf("LIBASSERT\n"); fflush(stdout); exit(1); } while (0)
#define VERIF_SHIFT(n,bits) ((void)0)
#endif
#define VERIF_FPTOSI_OK(x,bits) (((bits) > 53 ? (x) >= -(double)(1ULL<<((bits)-1)) : (x) > -(double)(1ULL<<((bits)-1)) - 1.0) && (x) < (double)(1ULL<<((bits)-1)))
#define VERIF_FPTOUI_OK(x,bits) ((x) > -1.0 && ((bits)>=64 ? (x) < 18446744073709551616.0 : (x) < (double)(1ULL<<((bits)&63))))
#define VERIF_NSW_OVF(op,a,b) __builtin_##op##_overflow_p((a),(b),(__typeof__(a))0)
#endif
